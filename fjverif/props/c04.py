"""C04 - hex library macros compute their documented function for every operand."""
import itertools

from hypothesis import strategies as st

from fjverif import bench as benchmod
from fjverif import stlspec_hex as S
from fjverif.imagegen import D
from fjverif.runner import Ok, Violation, Discard

ID = 'C04'
LEVEL = 'exploration'
RULE = ('(sweeps) for every documented hex data macro overload (memory, logic, inc/dec/neg/abs/sign_extend/count_bits, add/sub '
        'and their shifted / constant forms incl. carry-in/out, shifts, conditional jumps, cmp/scmp/min/max, add_mul/mul/mul10, '
        'div, idiv x rem_opt) one bench program per (macro, n, m, constants, w): operands are poked and EXHAUSTIVELY enumerated '
        'when they total <= 8 bits (quick) / <= 16 bits (thorough), otherwise drawn with boundary bias; after the macro a probe '
        '(add-carry / sub-carry observation, hex.or, hex.cmp) detects state leaking into the next macro.  (compositions) '
        'generated sequences of 2-10 macro applications on a shared pool of variables, each run on drawn initial states.  '
        'Oracle = the doc-comment formula on Python ints: every declared variable (sources unchanged unless documented), the '
        'branch marker, halting by Looping, leftover carries, probe results.  non-trivial = operands not all zero (and for '
        'compositions >= 3 macros)')
ASSUMPTIONS = ['formulas transcribed from the doc comments in flipjump/stl/hex/*.fj (fjverif/stlspec_hex.py)',
               'the native engine is the vehicle (C01/C07); variables are poked/read through _fjcore.Memory.get_word/set_word',
               'documented preconditions are respected (dst distinct from sources where the doc says so, times <= n, nb <= n)']

SPEC_BY_NAME = {s['name']: s for s in S.SPECS}


def const_choices(kind, n, m):
    if kind == 'hex':
        return [0, 1, 7, 8, 15]
    if kind == 'vec':
        return [0, 1, S.M(n), 0x8 << (4 * (n - 1)), 0x5A5A5A5A5A & S.M(n)]
    if kind == 'posconst':
        # the constant is taken to fit the destination (n_const <= n): larger constants are outside the documented use
        return sorted({c for c in (0, 1, 15, 16, 9, S.M(n), (S.M(n) + 1) >> 1, 0x100, 0xF0, 0x10 << (4 * (n - 1))) if c <= S.M(n)})
    if kind == 'shift':
        return [k for k in range(0, n + 1) if (m or 0) + k <= n]
    if kind == 'times':
        return list(range(0, n + 1))
    if kind == 'flags16':
        return [0, 0xFFFF, 0x0001, 0x8000, 0xA5C3, 0x00FF]
    raise ValueError(kind)


def ns_for(s, tier):
    """the sizes a spec is tried at: its listed sizes plus the sizes where size-derived constants (#(4n), (n+3)/4, ...)
    change - 4n a power of two.  Specs listed up to n = 3 only are the expensive ones (mul, div): they get 4 only."""
    ns = set(s['ns'])
    if ns == {1}:
        return [1]
    heavy = max(ns) <= 3
    # 12: a size whose loop counter n-1 has the top bit of its top hex set (signed tests on counters), 4/8/16: powers of two
    extra = {4, 12} if heavy else {4, 8, 12}
    if tier != 'quick':
        extra |= {5, 9, 16} if heavy else {6, 7, 16}
    return sorted(ns | {n for n in extra if n >= min(ns)})


# the single-hex add / sub are documented to take the carry / borrow in
CARRY_CONSUMERS = {'hex.add/1 carry-in 0', 'hex.sub/1 borrow-in 0'}


def variants(tier):
    """every (spec, n, m, C, K, w) bench program"""
    out = []
    for s in S.SPECS:
        stale_n = min(x for x in ns_for(s, tier) if x >= 2 or len(ns_for(s, tier)) == 1)
        for n in ns_for(s, tier):
            for m in s['ms']:
                if m is not None and m > n:
                    continue
                if s['name'] == 'hex.sign_extend' and m >= n:
                    continue
                cs = const_choices(s['consts']['C'], n, m) if 'C' in s['consts'] else [None]
                ks = const_choices(s['consts']['K'], n, m) if 'K' in s['consts'] else [None]
                if tier == 'quick':
                    cs, ks = cs[:3], ks[:3]
                for C in cs:
                    for K in ks:
                        for w in (64, 32):
                            if w == 32 and tier == 'quick' and (n > 2 or C not in (None, cs[0]) or K not in (None, ks[0])):
                                continue
                            out.append({'spec': s['name'], 'n': n, 'm': m, 'C': C, 'K': K, 'w': w})
                        # the same macro entered with a carry / borrow left set by an earlier single-hex add / sub
                        # ("no stale carry leaks from one macro into the next"): the documented result is the same
                        if not s['pre'] and s['name'] not in CARRY_CONSUMERS and n == stale_n and C in (None, cs[-1]) and K in (None, ks[-1]):
                            for pre in ('hex.add.set_carry', 'hex.sub.set_carry'):
                                out.append({'spec': s['name'], 'n': n, 'm': m, 'C': C, 'K': K, 'w': 64, 'pre': pre})
    return out


def var_sizes(s, n, m):
    return {v: f(n, m) for v, f in s['vars'].items()}


def build_source(v):
    s = SPEC_BY_NAME[v['spec']]
    n, m = v['n'], v['m']
    call = s['call'].format(n=n, m=m, C=v['C'], K=v['K'], L0='L0', L1='L1', L2='L2')
    sizes = var_sizes(s, n, m)
    lines = ['stl.startup_and_init_all', 'again:']
    if v.get('pre') or s['pre']:
        lines.append(v.get('pre') or s['pre'])
    lines += [call, "stl.output_char 'F'", ';done']
    for i in range(3):
        lines += ['L%d:' % i, "stl.output_char '%d'" % i, ';done']
    lines += ['done:', 'hex.add.clear_carry ac0, ac1', 'ac1:', "stl.output_char '!'", 'ac0:',
              'hex.sub.clear_carry sc0, sc1', 'sc1:', "stl.output_char '?'", 'sc0:',
              'hex.or pr, pq', 'hex.cmp 2, pa, pb, plt, peq, pgt',
              'plt:', "stl.output_char '<'", ';halt', 'peq:', "stl.output_char '='", ';halt', 'pgt:', "stl.output_char '>'", ';halt',
              'halt:', 'stl.loop']
    for name, size in sizes.items():
        lines += ['%s:' % name, 'hex.vec %d' % size]
    lines += ['guard0:', 'hex.vec 2', 'pr:', 'hex.hex 5', 'pq:', 'hex.hex 3', 'pa:', 'hex.vec 2, 0x34', 'pb:', 'hex.vec 2, 0x35']
    return '\n'.join(lines) + '\n', sizes


_benches = {}


def get_bench(v):
    key = (v['spec'], v['n'], v['m'], v['C'], v['K'], v['w'], v.get('pre'))
    if key not in _benches:
        src, sizes = build_source(v)
        _benches[key] = (benchmod.Bench(src, v['w']), sizes)
        if len(_benches) > 40:
            _benches.pop(next(iter(_benches)))
    return _benches[key]


def run_tuple(b, sizes, v, values, mem=None, start=None):
    """values: dict var -> initial value.  -> None or (what, detail).
    mem/start: re-execute the same call site on a memory that already ran it (stale macro-local state shows)"""
    s = SPEC_BY_NAME[v['spec']]
    m_ = b.fresh() if mem is None else mem
    for name, size in sizes.items():
        b.set(m_, name, size, values[name])
    if mem is not None:
        b.set(m_, 'pr', 1, 5)
    r = b.run(m_, start=start)
    upd = s['f'](dict(values), v['n'], v['m'], v['C'], v['K'])
    br = upd.get('_branch', 'fall')
    exp_out = ('F' if br == 'fall' else str(br)) + ('!' if upd.get('_addc') else '') + ('?' if upd.get('_subc') else '') + '<'
    got_out = r['out'].decode('latin-1')
    if r['cause'] != 'Looping':
        return 'termination', {'cause': r['cause'], 'fault': r['fault'], 'out': got_out}
    if v.get('pre'):
        # a macro that never touches the flag leaves it set: only value, branch and table state are compared
        got_out = got_out.replace('!', '').replace('?', '')
        exp_out = exp_out.replace('!', '').replace('?', '')
    if got_out != exp_out:
        if got_out[:1] != exp_out[:1]:
            return 'branch', {'got': got_out, 'expected': exp_out}
        if ('!' in got_out) != ('!' in exp_out) or ('?' in got_out) != ('?' in exp_out):
            return 'carry-left-behind', {'got': got_out, 'expected': exp_out}
        return 'probe-compare', {'got': got_out, 'expected': exp_out}
    for name, size in sizes.items():
        exp = upd.get(name, values[name])
        got = b.get(m_, name, size)
        if got != exp:
            kind = 'destination' if name in upd else 'source-or-bystander-changed'
            return kind + ':' + name, {'var': name, 'got': got, 'expected': exp}
        for i in range(size):
            if b.cell_raw(m_, name, i) > 15:
                return 'stray-bits:' + name, {'var': name, 'cell': i, 'raw': b.cell_raw(m_, name, i)}
    if b.get(m_, 'pr', 1) != 7 or b.get(m_, 'pq', 1) != 3 or b.get(m_, 'guard0', 2) != 0:
        return 'table-state-leak', {'pr': b.get(m_, 'pr', 1), 'guard0': b.get(m_, 'guard0', 2)}
    return None


def boundary_values(size):
    mx = S.M(size)
    vals = {0, 1, 2, 7, 8, 9, 10, 15, mx, mx - 1, (mx + 1) >> 1, ((mx + 1) >> 1) - 1, ((mx + 1) >> 1) + 1}
    for k in range(1, size):
        vals |= {1 << (4 * k), (1 << (4 * k)) - 1, (1 << (4 * k)) + 1}
    return sorted(x for x in vals if 0 <= x <= mx)


def enumerations(tier):
    limit_bits = 8 if tier == 'quick' else 16

    def cases(shard, nshards):
        k = 0
        for v in variants(tier):
            s = SPEC_BY_NAME[v['spec']]
            sizes = var_sizes(s, v['n'], v['m'])
            bits = 4 * sum(sizes.values())
            k += 1
            if k % nshards != shard:
                continue
            if bits <= limit_bits:
                yield dict(v, kind='sweep', mode='exhaustive', chain=150 if tier == 'quick' else 1500)
            else:
                yield dict(v, kind='sweep', mode='boundary', chain=150 if tier == 'quick' else 1500)
    return [{'name': 'operand-sweeps', 'cases': cases, 'exhaustive': False}]


def sweep_tuples(v, sizes):
    names = list(sizes)
    if v['mode'] == 'exhaustive' and 4 * sum(sizes.values()) <= 16:
        ranges = [range(S.M(sizes[n]) + 1) for n in names]
    else:
        ranges = [boundary_values(sizes[n]) for n in names]
        total = 1
        for r in ranges:
            total *= len(r)
        while total > 6000:
            i = max(range(len(ranges)), key=lambda j: len(ranges[j]))
            ranges[i] = ranges[i][::2]
            total = 1
            for r in ranges:
                total *= len(r)
    for combo in itertools.product(*ranges):
        yield dict(zip(names, combo))


def run_sweep(v):
    try:
        b, sizes = get_bench(v)
    except benchmod.BenchError as e:
        return Violation('c04:%s:bench-program-does-not-assemble' % v['spec'], {'error': str(e)[:600]}, [])
    cl = ['macro=' + v['spec'], 'w=%d' % v['w'], 'mode=' + v['mode']] + (['entered with a stale carry/borrow'] if v.get('pre') else [])
    count = 0
    nz = 0
    for values in sweep_tuples(v, sizes):
        count += 1
        if any(values.values()):
            nz += 1
        bad = run_tuple(b, sizes, v, values)
        if bad:
            what, detail = bad
            key = 'c04:%s:%s%s' % (v['spec'], 'entered-with-stale-carry:' if v.get('pre') else '', what)
            upd = SPEC_BY_NAME[v['spec']]['f'](dict(values), v['n'], v['m'], v['C'], v['K'])
            if v['spec'].startswith('hex.idiv') and 'q' in upd:
                a, bb = S.sgn(values['a'], v['n']), S.sgn(values['b'], v['m'])
                if bb != 0 and a % bb == 0 and v['spec'][-1] in '02':
                    key = 'c04:hex.idiv:rem_opt0|2:zero-remainder-adjusted'
            return Violation(key, {'variant': {k: v.get(k) for k in ('spec', 'n', 'm', 'C', 'K', 'w', 'pre')}, 'operands': values, **detail}, cl)
    from fjverif.props import c05
    bad = c05.run_chain(b, sizes, v, 'c04', run_tuple=run_tuple, sweep=sweep_tuples)
    if bad:
        return Violation(bad[0], bad[1], cl + ['re-execution chain'])
    cl.append('re-execution chain')
    return Ok(cl, nz > 0, evals=count, distinct=nz, sample={'variant': {k: v[k] for k in ('spec', 'n', 'm', 'C', 'K', 'w')}, 'tuples': count})


# ------------------------------------------------------------------ compositions

COMPOSABLE = [s for s in S.SPECS if '{L' not in s['call'] and not s['pre'] and '/1' not in s['name'] and s['name'] not in
              ('hex.double_xor', 'hex.mov/n same address', 'hex.add/n same')]


@st.composite
def compositions(draw):
    d = D(draw)
    n = d.choice([1, 2, 2, 3, 4])
    pool = ['v0', 'v1', 'v2', 'v3']
    steps = []
    for _ in range(d.int(2, 10)):
        s = d.choice(COMPOSABLE)
        if n not in s['ns'] and not (min(s['ns']) <= n <= max(s['ns'])):
            continue
        m = None
        if s['ms'] != (None,):
            m = d.choice([x for x in s['ms'] if x < n or (x <= n and s['name'] != 'hex.sign_extend')] or [None])
            if m is None:
                continue
        names = list(s['vars'])
        if any(f(n, m) != n for f in s['vars'].values()):
            continue  # only macros whose operands all have the pool's size take part in compositions
        chosen = []
        for _v in names:
            c = d.choice([p for p in pool if p not in chosen])
            chosen.append(c)
        C = d.choice(const_choices(s['consts']['C'], n, m)) if 'C' in s['consts'] else None
        K = d.choice(const_choices(s['consts']['K'], n, m) or [0]) if 'K' in s['consts'] else None
        steps.append({'spec': s['name'], 'map': dict(zip(names, chosen)), 'm': m, 'C': C, 'K': K})
    inits = [[d.choice(boundary_values(n)) if d.pct() < 50 else d.int(0, S.M(n)) for _ in pool] for _ in range(d.int(3, 12))]
    return {'kind': 'composition', 'n': n, 'w': d.choice([64, 64, 32]), 'steps': steps, 'inits': inits}


def families(tier):
    q = tier == 'quick'
    return [{'name': 'compositions', 'strategy': compositions, 'examples': 6 if q else 300}]


def run_composition(case):
    n, w = case['n'], case['w']
    if len(case['steps']) < 2:
        return Discard('too few steps')
    lines = ['stl.startup_and_init_all']
    for st_ in case['steps']:
        s = SPEC_BY_NAME[st_['spec']]
        call = s['call'].format(n=n, m=st_['m'], C=st_['C'], K=st_['K'])
        # rename the macro's formal variables a,b,c,d,q,r to pool variables
        toks = call.split(' ', 1)
        args = [x.strip() for x in toks[1].split(',')]
        args = [st_['map'].get(a, a) for a in args]
        lines.append(toks[0] + ' ' + ', '.join(args))
    lines += ['hex.add.clear_carry ac0, ac1', 'ac1:', "stl.output_char '!'", 'ac0:', 'hex.sub.clear_carry sc0, sc1', 'sc1:',
              "stl.output_char '?'", 'sc0:', 'hex.or pr, pq', "stl.output_char '.'", 'stl.loop']
    for p in ('v0', 'v1', 'v2', 'v3'):
        lines += [p + ':', 'hex.vec %d' % n]
    lines += ['pr:', 'hex.hex 5', 'pq:', 'hex.hex 3']
    src = '\n'.join(lines) + '\n'
    try:
        b = benchmod.Bench(src, w)
    except benchmod.BenchError as e:
        return Violation('c04:composition:does-not-assemble', {'error': str(e)[:500]}, [])
    cl = ['family=composition', 'w=%d' % w, 'n=%d' % n]
    for init in case['inits']:
        env = dict(zip(('v0', 'v1', 'v2', 'v3'), init))
        m_ = b.fresh()
        for p, val in env.items():
            b.set(m_, p, n, val)
        for st_ in case['steps']:
            s = SPEC_BY_NAME[st_['spec']]
            local = {formal: env[actual] for formal, actual in st_['map'].items()}
            upd = s['f'](local, n, st_['m'], st_['C'], st_['K'])
            for formal, val in upd.items():
                if not formal.startswith('_'):
                    env[st_['map'][formal]] = val
        r = b.run(m_)
        if r['cause'] != 'Looping' or r['out'] != b'.':
            return Violation('c04:composition:termination-or-carry', {'cause': r['cause'], 'out': r['out'].decode('latin-1'), 'src': src[:800], 'init': init}, cl)
        for p in env:
            got = b.get(m_, p, n)
            if got != env[p]:
                return Violation('c04:composition:value', {'var': p, 'got': got, 'expected': env[p], 'init': init, 'src': src[:900]}, cl)
        if b.get(m_, 'pr', 1) != 7:
            return Violation('c04:composition:table-state-leak', {'pr': b.get(m_, 'pr', 1), 'src': src[:800]}, cl)
    distinct_macros = len({s_['spec'] for s_ in case['steps']})
    return Ok(cl + ['macros>=3'] if distinct_macros >= 3 else cl, distinct_macros >= 3, evals=len(case['inits']))


def run_case(case):
    if case.get('kind') == 'composition':
        return run_composition(case)
    return run_sweep(case)
