"""C12 - constant expressions evaluate as unbounded-integer arithmetic."""
import contextlib
import io
import itertools

from hypothesis import strategies as st

from fjverif import engines, exprref
from fjverif.exprref import BIN_PREC, BIN_OPS, UN_OPS, UNARY_PREC
from fjverif.imagegen import D
from fjverif.runner import Ok, Violation, Discard

ID = 'C12'
LEVEL = 'exploration'
RULE = ('(a, exhaustive) every ordered pair of binary operators "x op1 y op2 z" (21^2), every unary x binary and binary x '
        'unary pair and ?: nestings, each with operand triples chosen so that the two bracketings differ, written '
        'WITHOUT parentheses; every one-byte literal value in char / escaped / \\xHH / string form.  (b) drawn trees of '
        'depth <= 5 with operands small / negative / >= 2^64 / 0 / 1, rendered with minimal or full parentheses and dec / '
        'hex / bin / char / string literals.  (c) staging: every identifier of an expression is a constant, a macro '
        'parameter (1-3 pass-through levels), a label (fixed with "segment") or a rep iterator.  Oracle = reference '
        'evaluator on Python ints with a frozen precedence table; observed through the words of "((E)>>64k)&(2^64-1); (E)<0" '
        'for k=0..3 at w=64.  Both sides failing counts as agreement; cases where eager and lazy evaluation differ are '
        'counted as ambiguous and excluded.  non-trivial = >= 2 operators of different precedence without separating '
        'parentheses, or >= 2 identifier classes in one expression')
ASSUMPTIONS = ['the documented precedence/associativity is the frozen table in fjverif/exprref.py (the external docs site is not reachable offline)',
               'exponents and shift amounts are structurally small so that evaluation terminates quickly']

M64 = (1 << 64) - 1


# ------------------------------------------------------------------ generation

def gen_value_literal(d, small=False):
    r = d.pct()
    if small:
        v = d.choice([0, 1, 2, 3, 5, 7, 8, 63, 64, 65, d.int(0, 70)])
    elif r < 35:
        v = d.int(0, 20)
    elif r < 55:
        v = d.int(0, 300)
    elif r < 70:
        v = d.choice([1 << 63, (1 << 64) - 1, 1 << 64, (1 << 64) + 1, (1 << 70) + d.int(0, 9), 0xFFFFFFFF, 1 << 32])
    elif r < 80:
        v = d.choice([0, 1])
    else:
        v = d.int(0, 1 << 66)
    notation = d.choice(['dec', 'dec', 'hex', 'HEX', 'bin', 'char', 'charhex', 'string', 'stringhex'])
    return ['n', v, notation]


def gen_tree(d, depth, idents, small=False):
    """small=True: value must stay small by construction (exponent / shift amount)"""
    r = d.pct()
    if depth <= 0 or r < 25:
        if idents and d.pct() < 45:
            cands = [n for n, (cls, v) in idents.items() if (not small) or abs(v) <= 70]
            if cands:
                return ['id', d.choice(cands)]
        return gen_value_literal(d, small)
    if small:
        # keep structurally small: a literal, a small id, or a negated one
        if r < 60:
            return ['u', '-', gen_tree(d, 0, idents, True)]
        return ['b', d.choice(['+', '-', '%', '&', '>>']), gen_tree(d, 0, idents, True), gen_tree(d, 0, idents, True)]
    if r < 38:
        return ['u', d.choice(UN_OPS), gen_tree(d, depth - 1, idents)]
    if r < 90:
        op = d.choice(BIN_OPS)
        if op in ('<<', '>>', '**'):
            left = gen_tree(d, depth - 1 if op != '**' else 0, idents)
            right = gen_tree(d, 1 if d.pct() < 25 else 0, idents, True)
            if op == '**':
                right = ['n', d.choice([0, 1, 2, 3, 5]), 'dec'] if d.pct() < 85 else ['u', '-', ['n', d.int(1, 3), 'dec']]
            return ['b', op, left, right]
        return ['b', op, gen_tree(d, depth - 1, idents), gen_tree(d, depth - 1, idents)]
    return ['t', gen_tree(d, depth - 1, idents), gen_tree(d, depth - 1, idents), gen_tree(d, depth - 1, idents)]


@st.composite
def staged_cases(draw):
    d = D(draw)
    exprs = []
    for _ in range(d.int(1, 6)):
        idents = {}
        for name in ['a', 'b', 'c', 'd'][:d.int(0, 4)]:
            cls = d.choice(['const', 'param', 'label', 'iter'])
            if cls == 'iter' and any(c == 'iter' for c, _ in idents.values()):
                cls = 'param'
            if cls == 'label':
                v = 64 * d.choice([1, 2, 3, 1 << 10, (1 << 57) + 5, d.int(1, 1 << 40)])
            elif cls == 'iter':
                v = d.int(0, 40)
            else:
                r = d.pct()
                v = d.int(0, 20) if r < 40 else -d.int(1, 300) if r < 60 else d.choice([1 << 64, (1 << 64) - 1, 1 << 63, (1 << 70) + 3]) if r < 80 else d.int(0, 1 << 66)
            idents[name] = (cls, v)
        tree = gen_tree(d, d.int(1, 5), idents)
        used = exprref.ids_of(tree)
        exprs.append({'tree': tree, 'idents': {k: list(idents[k]) for k in used}, 'style': d.choice(['min', 'min', 'full']),
                      'levels': d.int(1, 3)})
    return {'kind': 'staged', 'exprs': exprs}


def flat_ast(x, op1, y, op2, z):
    """AST of the unparenthesised 'x op1 y op2 z' under the frozen table, or None when it must be a syntax error"""
    p1, a1 = BIN_PREC[op1]
    p2, a2 = BIN_PREC[op2]
    if p1 > p2:
        return ['b', op2, ['b', op1, x, y], z]
    if p1 < p2:
        return ['b', op1, x, ['b', op2, y, z]]
    if a1 == 'non':
        return None
    if a1 == 'left':
        return ['b', op2, ['b', op1, x, y], z]
    return ['b', op1, x, ['b', op2, y, z]]


TRIPLES = [(7, 3, 2), (2, 3, 2), (-7, 3, 2), (100, 7, 3), (1, 0, 5), (6, 2, 1)]


def enumerations(tier):
    def pairs(shard, nshards):
        k = 0
        for op1, op2 in itertools.product(BIN_OPS, repeat=2):
            for (x, y, z) in (TRIPLES if tier != 'quick' else TRIPLES[:3]):
                k += 1
                if k % nshards != shard:
                    continue
                yield {'kind': 'flat', 'text': 'x %s y %s z' % (op1, op2), 'env': {'x': x, 'y': y, 'z': z},
                       'ast': flat_ast(['id', 'x'], op1, ['id', 'y'], op2, ['id', 'z'])}
        for u, op in itertools.product(UN_OPS, BIN_OPS):
            for (x, y, _) in TRIPLES:
                k += 1
                if k % nshards != shard:
                    continue
                lvl = BIN_PREC[op][0]
                ast = ['b', op, ['u', u, ['id', 'x']], ['id', 'y']] if UNARY_PREC > lvl else ['u', u, ['b', op, ['id', 'x'], ['id', 'y']]]
                yield {'kind': 'flat', 'text': '%sx %s y' % (u, op), 'env': {'x': x, 'y': y}, 'ast': ast}
                yield {'kind': 'flat', 'text': 'x %s %sy' % (op, u), 'env': {'x': x, 'y': y},
                       'ast': ['b', op, ['id', 'x'], ['u', u, ['id', 'y']]]}
        for u1, u2 in itertools.product(UN_OPS, repeat=2):
            k += 1
            if k % nshards != shard:
                continue
            yield {'kind': 'flat', 'text': '%s%sx' % (u1, u2), 'env': {'x': 5}, 'ast': ['u', u1, ['u', u2, ['id', 'x']]]}
        tern = [('x ? y : z ? 4 : 5', ['t', ['id', 'x'], ['id', 'y'], ['t', ['id', 'z'], ['n', 4], ['n', 5]]]),
                ('x ? y ? 4 : 5 : z', ['t', ['id', 'x'], ['t', ['id', 'y'], ['n', 4], ['n', 5]], ['id', 'z']])]
        for op in BIN_OPS:
            tern.append(('x %s y ? 4 : 5' % op, ['t', ['b', op, ['id', 'x'], ['id', 'y']], ['n', 4], ['n', 5]]))
            tern.append(('x ? y : z %s 4' % op, ['t', ['id', 'x'], ['id', 'y'], ['b', op, ['id', 'z'], ['n', 4]]]))
            tern.append(('x ? y %s 3 : z' % op, ['t', ['id', 'x'], ['b', op, ['id', 'y'], ['n', 3]], ['id', 'z']]))
        for text, ast in tern:
            for (x, y, z) in TRIPLES[:4] + [(0, 3, 2), (0, 0, 0)]:
                k += 1
                if k % nshards != shard:
                    continue
                yield {'kind': 'flat', 'text': text, 'env': {'x': x, 'y': y, 'z': z}, 'ast': ast}

    def literals(shard, nshards):
        k = 0
        for v in range(256):
            for form in ('char', 'charhex', 'string', 'stringhex', 'esc', 'HEXesc'):
                k += 1
                if k % nshards != shard:
                    continue
                if form == 'esc':
                    if v not in exprref.ESC:
                        continue
                    text = "'\\%s'" % exprref.ESC[v]
                elif form == 'HEXesc':
                    text = "'\\X%02X'" % v
                elif form in ('string', 'stringhex'):
                    if v == 0:
                        text = '"\\x41\\0"'  # trailing NUL byte keeps the value 0x41
                        yield {'kind': 'literal', 'text': text, 'value': 0x41}
                        continue
                    text = exprref.render_number(v | (0x42 << 8) | (v << 16), form)
                    yield {'kind': 'literal', 'text': text, 'value': v | (0x42 << 8) | (v << 16)}
                    continue
                else:
                    text = exprref.render_number(v, form)
                yield {'kind': 'literal', 'text': text, 'value': v}
        for text, v in [('0x0', 0), ('0XfF', 255), ('0b0', 0), ('0B101', 5), ('007', 7), ('18446744073709551616', 1 << 64),
                        ('0xffffffffffffffffffff', (1 << 80) - 1), ('"ab"', 0x6261), ('"\\n\\t"', 0x090A), ("' '", 32), ('"a b"', 0x622061)]:
            k += 1
            if k % nshards == shard:
                yield {'kind': 'literal', 'text': text, 'value': v}
    return [{'name': 'all-operator-pairs-unparenthesised', 'cases': pairs, 'exhaustive': True},
            {'name': 'all-one-byte-literals', 'cases': literals, 'exhaustive': True}]


def families(tier):
    q = tier == 'quick'
    return [{'name': 'staged-trees', 'strategy': staged_cases, 'examples': 250 if q else 15000}]


# ------------------------------------------------------------------ assembling and observing

def value_text(v):
    """source text of an integer value for constant definitions / macro arguments"""
    return str(v) if v >= 0 else '(0 - %d)' % (-v)


def assemble_text(src, w=64):
    import flipjump
    from flipjump.fjm.fjm_consts import FJMVersion
    from flipjump.fjm.fjm_reader import Reader
    from flipjump.utils.exceptions import FlipJumpException
    tmp = engines.tmpdir()
    f = tmp / 'c12.fj'
    f.write_text(src)
    out = tmp / 'c12.fjm'
    try:
        with contextlib.redirect_stdout(io.StringIO()), engines.hang_guard(60):
            flipjump.assemble([f], out, memory_width=w, fjm_version=FJMVersion(0), print_time=False,
                              warning_as_errors=False, use_stl=False)
    except FlipJumpException as e:
        return 'error', e
    except engines.EngineTimeout:
        return 'timeout', None
    except Exception as e:
        return 'raw', e
    return 'ok', Reader(out)


def observe_ops(reader, first_op, count):
    out = []
    for i in range(first_op, first_op + count):
        out.append((reader.memory.get(2 * i), reader.memory.get(2 * i + 1)))
    return out


def expected_words(v):
    return [((v >> (64 * k)) & M64, 1 if v < 0 else 0) for k in range(4)]


def body_text(etext):
    return '\n'.join('    ((%s) >> %d) & 0xFFFFFFFFFFFFFFFF ; (%s) < 0' % (etext, 64 * k, etext) for k in range(4))


def build_program(items):
    """items: list of dict(text, consts{n:v}, params[(n,v)], labels{n:v}, iter (n,v)|None, levels) -> (source, [first op index])"""
    lines = []
    defs = []
    calls = []
    tail = []
    op_index = 0
    first = []
    seen_consts = {}
    for k, it in enumerate(items):
        pre = 'e%d_' % k

        def ren(name):
            return pre + name
        text = exprref.render(rename_ids(it['tree'], pre), it['style']) if 'tree' in it else it['text']
        it['text'] = text
        for n, v in it['consts'].items():
            lines.append('%s = %s' % (ren(n), value_text(v)))
        params = [ren(n) for n, _ in it['params']]
        args = [value_text(v) for _, v in it['params']]
        globs = [ren(n) for n in it['labels']]
        for n, v in it['labels'].items():
            tail.append('segment %d\n%s:' % (v, ren(n)))
        itr = it.get('iter')
        if itr:
            params.append(ren(itr[0]))
        header = 'def %s %s%s {' % (pre + 'm0', ', '.join(params), (' < ' + ', '.join(globs)) if globs else '')
        defs.append(header + '\n' + body_text(text) + '\n}')
        # pass-through levels
        top = pre + 'm0'
        for lv in range(1, it.get('levels', 1)):
            nm = pre + 'm%d' % lv
            inner_args = ', '.join(params)
            defs.append('def %s %s {\n    %s %s\n}' % (nm, ', '.join(params), top, inner_args))
            top = nm
        if itr:
            # the iterator is substituted at the rep stage; the argument always evaluates to the wanted value
            calls.append('rep(1, it%d) %s %s' % (k, top, ', '.join(args + ['it%d + %s' % (k, value_text(itr[1]))])))
            first.append(op_index)
            op_index += 4
        else:
            calls.append(('%s %s' % (top, ', '.join(args))).strip())
            first.append(op_index)
            op_index += 4
    src = '\n'.join(lines + defs + calls + tail) + '\n'
    return src, first


def rename_ids(tree, pre):
    k = tree[0]
    if k == 'id':
        return ['id', pre + tree[1]]
    if k == 'n':
        return tree
    if k == 'u':
        return ['u', tree[1], rename_ids(tree[2], pre)]
    if k == 'b':
        return ['b', tree[1], rename_ids(tree[2], pre), rename_ids(tree[3], pre)]
    return ['t'] + [rename_ids(s, pre) for s in tree[1:]]


def nontrivial_mix(tree):
    """>= 2 operators of different precedence adjacent without parentheses in the minimal rendering"""
    ops = exprref.ops_of(tree)
    levels = set()
    for o in ops:
        levels.add(UNARY_PREC if o.startswith('u') else 1 if o == '?:' else BIN_PREC[o][0])
    return len(levels) >= 2


def check_items(items, metas, cl):
    """assemble the items expected to succeed together; compare words"""
    src, first = build_program(items)
    status, obj = assemble_text(src)
    if status == 'timeout':
        return Discard('inconclusive: assembler wall guard')
    if status != 'ok':
        # find the culprit by assembling one by one
        for it, meta in zip(items, metas):
            s1, f1 = build_program([it])
            st1, o1 = assemble_text(s1)
            if st1 != 'ok':
                return Violation('c12:valid-expression-rejected', {'expr': it['text'], 'expected_value': meta['value'], 'exc': repr(o1)[:300],
                                                                  'idents': meta.get('idents')}, cl)
        return Violation('c12:batch-rejected', {'exc': repr(obj)[:300], 'src': src[:600]}, cl)
    for it, meta, fo in zip(items, metas, first):
        got = observe_ops(obj, fo, 4)
        exp = expected_words(meta['value'])
        if got != exp:
            gv = sum((g[0] or 0) << (64 * k) for k, g in enumerate(got))
            return Violation('c12:value-differs', {'expr': it['text'], 'expected_value': meta['value'], 'got_low256': gv, 'got_negative': got[0][1],
                                                  'idents': meta.get('idents')}, cl)
    return None


def run_staged(case):
    items_ok, metas_ok = [], []
    cl = ['family=staged']
    nontrivial = False
    for k, ex in enumerate(case['exprs']):
        tree = ex['tree']
        idents = {n: tuple(v) for n, v in ex['idents'].items()}
        env = {n: v for n, (c, v) in idents.items()}
        info = {}
        pre = 'e%d_' % k if False else ''
        try:
            value = exprref.evaluate(tree, env, info)
            err = None
        except exprref.EvalError as e:
            value, err = None, e
        if info.get('lazy_differs'):
            cl.append('ambiguous eager/lazy (excluded)')
            continue
        if value is not None and value.bit_length() > 3000:
            continue
        item = {'consts': {n: v for n, (c, v) in idents.items() if c == 'const'},
                'params': [(n, v) for n, (c, v) in idents.items() if c == 'param'],
                'labels': {n: v for n, (c, v) in idents.items() if c == 'label'},
                'iter': next(((n, v) for n, (c, v) in idents.items() if c == 'iter'), None),
                'levels': ex['levels']}
        classes = {c for c, _ in idents.values()}
        for c in classes:
            cl.append('ident class ' + c)
        if len(classes) >= 2:
            nontrivial = True
            cl.append('>=2 identifier classes')
        if ex['style'] == 'min' and nontrivial_mix(tree):
            nontrivial = True
            cl.append('mixed precedence, minimal parentheses')
        item['tree'] = tree
        item['style'] = ex['style']
        item['text'] = exprref.render(tree, ex['style'])
        meta = {'value': value, 'idents': {n: list(v) for n, v in idents.items()}}
        if err is None:
            items_ok.append(item)
            metas_ok.append(meta)
        else:
            cl.append('expected error: ' + str(err))
            src, _ = build_program([item])
            status, obj = assemble_text(src)
            if status == 'timeout':
                return Discard('inconclusive: assembler wall guard')
            if status == 'ok':
                return Violation('c12:erroneous-expression-accepted', {'expr': item['text'], 'reference_error': str(err), 'idents': meta['idents']}, cl)
    if items_ok:
        v = check_items(items_ok, metas_ok, cl)
        if v is not None:
            return v
    return Ok(sorted(set(cl)), nontrivial)


def run_flat(case):
    cl = ['family=flat-pairs']
    env = case['env']
    # identifiers are constants here (negative ones written as 0-n): the parser folds at parse time;
    # a second program resolves them as labels-free macro parameters
    text = case['text']
    for mode in ('const', 'param'):
        if mode == 'const':
            src = '\n'.join('%s = %s' % (n, value_text(v)) for n, v in env.items()) + '\n' + body_text(text).replace('    ', '') + '\n'
        else:
            names = sorted(env)
            src = 'def m %s {\n%s\n}\nm %s\n' % (', '.join(names), body_text(text), ', '.join(value_text(env[n]) for n in names))
        status, obj = assemble_text(src)
        if status == 'timeout':
            return Discard('inconclusive: assembler wall guard')
        if case['ast'] is None:
            if status == 'ok':
                return Violation('c12:non-associative-chain-accepted', {'text': text, 'mode': mode}, cl)
            continue
        info = {}
        try:
            value = exprref.evaluate(case['ast'], env, info)
        except exprref.EvalError as e:
            if info.get('lazy_differs'):
                return Ok(cl + ['ambiguous eager/lazy (excluded)'], False)
            if status == 'ok':
                return Violation('c12:erroneous-expression-accepted', {'text': text, 'env': env, 'reference_error': str(e), 'mode': mode}, cl)
            continue
        if status != 'ok':
            return Violation('c12:valid-expression-rejected', {'text': text, 'env': env, 'mode': mode, 'exc': repr(obj)[:300]}, cl)
        got = observe_ops(obj, 0, 4)
        if got != expected_words(value):
            gv = sum((g[0] or 0) << (64 * k) for k, g in enumerate(got))
            return Violation('c12:precedence-or-value', {'text': text, 'env': env, 'mode': mode, 'expected_value': value,
                                                        'got_low256': gv, 'got_negative': got[0][1]}, cl)
    return Ok(cl, True)


def run_literal(case):
    cl = ['family=literals']
    src = body_text(case['text']).replace('    ', '') + '\n'
    status, obj = assemble_text(src)
    if status != 'ok':
        return Violation('c12:literal-rejected', {'text': case['text'], 'exc': repr(obj)[:200]}, cl)
    got = observe_ops(obj, 0, 4)
    if got != expected_words(case['value']):
        return Violation('c12:literal-value', {'text': case['text'], 'expected': case['value'], 'got': got[0][0]}, cl)
    return Ok(cl, True)


def run_case(case):
    k = case['kind']
    if k == 'flat':
        return run_flat(case)
    if k == 'literal':
        return run_literal(case)
    return run_staged(case)
