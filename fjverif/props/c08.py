"""C08 - pointer, stack and call/return macros address exactly the pointed cell."""
import itertools

from hypothesis import strategies as st

from fjverif import bench as benchmod
from fjverif.imagegen import D
from fjverif.runner import Ok, Violation, Discard

ID = 'C08'
LEVEL = 'exploration'
RULE = ('(pair sweeps) for each pointer macro (hex.read_hex/read_byte (+_and_inc, +n), write_hex/write_byte (+_and_inc, +n), '
        'zero_ptr, xor_hex_to_ptr/xor_byte_to_ptr, xor_hex_from_ptr/xor_byte_from_ptr, ptr_flip, ptr_flip_dbit, ptr_wflip, '
        'ptr_wflip_2nd_word, ptr_jump, ptr_inc/dec/add/sub/index; ALL 256 stored / written byte values through the byte macros; bit.ptr_jump/ptr_flip/ptr_flip_dbit/xor_to_ptr/xor_from_ptr/'
        'ptr_wflip/ptr_wflip_2nd_word/ptr_inc/ptr_dec) a bench program performs TWO consecutive dereferences through two '
        'pointer variables; the pointers are poked with ALL ordered pairs of cells of a 16-cell buffer that straddles a '
        'power-of-two address (so the cell addresses differ in many bits) x several stored values.  (histories) generated '
        'balanced sequences of push_hex/push_byte/push n/pop_hex/pop_byte/pop n/sp_add/sp_sub/sp_inc/sp_dec and call trees of '
        'depth <= 5 built from stl.call, stl.call addr,k, stl.return, stl.fcall/fret, every function printing an entry and an '
        'exit marker and pushing/popping locals.  Oracle = Python model (memory = {cell -> value}, pointer arithmetic in whole '
        'cells, LIFO stack, expected marker string); compared after halt: every buffer cell (data AND flip word), every '
        'variable, the pointers, sp, popped values, marker sequence - so a write anywhere else is seen.  non-trivial = two '
        'dereferences with different targets, or a history with stack depth >= 3 / call depth >= 2')
ASSUMPTIONS = ['pointer macros assume dw-aligned cell addresses (documented); only such addresses are generated',
               'hex pointer macros need hex.init: w in {32, 64}; bit-namespace pointers also at w=16 with bit.pointers.ptr_init only']

B = 16  # buffer cells


def nptr(w):
    return w // 4


# name -> (source line template using p{k}/d{k}/e{k}/s{k}/t{k}, effect(model, k))
def _cell(m, k):
    return m['ptr'][k]


HEX_OPS = {
    'read_hex': 'hex.read_hex d{k}, p{k}',
    'read_byte': 'hex.read_byte e{k}, p{k}',
    'xor_hex_from_ptr': 'hex.xor_hex_from_ptr d{k}, p{k}',
    'xor_byte_from_ptr': 'hex.xor_byte_from_ptr e{k}, p{k}',
    'write_hex': 'hex.write_hex p{k}, s{k}',
    'write_byte': 'hex.write_byte p{k}, t{k}',
    'zero_ptr': 'hex.zero_ptr p{k}',
    'xor_hex_to_ptr': 'hex.xor_hex_to_ptr p{k}, s{k}',
    'xor_byte_to_ptr': 'hex.xor_byte_to_ptr p{k}, t{k}',
    'ptr_flip_dbit': 'hex.ptr_flip_dbit p{k}',
    'ptr_flip': 'hex.ptr_flip p{k}',
    'ptr_wflip': 'hex.ptr_wflip p{k}, 0x31',
    'ptr_wflip_2nd_word': 'hex.ptr_wflip_2nd_word p{k}, 0x5A * dw',
    'read_hex_and_inc': 'hex.read_hex_and_inc d{k}, p{k}',
    'read_byte_and_inc': 'hex.read_byte_and_inc e{k}, p{k}',
    'write_hex_and_inc': 'hex.write_hex_and_inc p{k}, s{k}',
    'write_byte_and_inc': 'hex.write_byte_and_inc p{k}, t{k}',
    'read_hex_n': 'hex.read_hex 2, e{k}, p{k}',
    'read_byte_n': 'hex.read_byte 2, f{k}, p{k}',
    'write_hex_n': 'hex.write_hex 2, p{k}, t{k}',
    'write_byte_n': 'hex.write_byte 2, p{k}, u{k}',
    'xor_hex_to_ptr_n': 'hex.xor_hex_to_ptr 2, p{k}, t{k}',
    'xor_byte_to_ptr_n': 'hex.xor_byte_to_ptr 2, p{k}, u{k}',
    'ptr_inc': 'hex.ptr_inc p{k}',
    'ptr_dec': 'hex.ptr_dec p{k}',
    'ptr_add': 'hex.ptr_add p{k}, 3',
    'ptr_sub': 'hex.ptr_sub p{k}, 2',
    'ptr_index': 'hex.ptr_index q{k}, p{k}, idx{k}',
    'read_nth_hex': 'hex.read_nth_hex d{k}, p{k}, idx{k}',
    'read_nth_byte': 'hex.read_nth_byte e{k}, p{k}, idx{k}',
    'write_nth_hex': 'hex.write_nth_hex p{k}, idx{k}, s{k}',
    'write_nth_byte': 'hex.write_nth_byte p{k}, idx{k}, t{k}',
    # following a chain in place: the destination is the low hex / byte of the index itself (i = next[i])
    'read_nth_hex_into_index': 'hex.read_nth_hex idx{k}, p{k}, idx{k}',
    'read_nth_byte_into_index': 'hex.read_nth_byte idx{k}, p{k}, idx{k}',
}


def apply_hex(op, m, k, w):
    """m: dict(cells: list of [flipword, data], ptr: [cell index or None x2], vars...) ; addresses in cell units"""
    i = m['ptr'][k]

    def data(j):
        return m['cells'][j][1]
    if op == 'read_hex':
        m['d'][k] = data(i) & 15
    elif op == 'read_byte':
        m['e'][k] = data(i)
    elif op == 'xor_hex_from_ptr':
        m['d'][k] ^= data(i) & 15
    elif op == 'xor_byte_from_ptr':
        m['e'][k] ^= data(i)
    elif op == 'write_hex':
        m['cells'][i][1] = (data(i) & 0xF0) | m['s'][k]
    elif op == 'write_byte':
        m['cells'][i][1] = m['t'][k]
    elif op == 'zero_ptr':
        m['cells'][i][1] = 0
    elif op == 'xor_hex_to_ptr':
        m['cells'][i][1] ^= m['s'][k]
    elif op == 'xor_byte_to_ptr':
        m['cells'][i][1] ^= m['t'][k]
    elif op == 'ptr_flip_dbit':
        m['cells'][i][1] ^= 1
    elif op == 'ptr_flip':
        m['cells'][i][0] ^= 1
    elif op == 'ptr_wflip':
        m['cells'][i][0] ^= 0x31
    elif op == 'ptr_wflip_2nd_word':
        m['cells'][i][1] ^= 0x5A
    elif op == 'read_hex_and_inc':
        m['d'][k] = data(i) & 15
        m['ptr'][k] += 1
    elif op == 'read_byte_and_inc':
        m['e'][k] = data(i)
        m['ptr'][k] += 1
    elif op == 'write_hex_and_inc':
        m['cells'][i][1] = (data(i) & 0xF0) | m['s'][k]
        m['ptr'][k] += 1
    elif op == 'write_byte_and_inc':
        m['cells'][i][1] = m['t'][k]
        m['ptr'][k] += 1
    elif op == 'read_hex_n':
        m['e'][k] = (data(i) & 15) | ((data(i + 1) & 15) << 4)
    elif op == 'read_byte_n':
        m['f'][k] = data(i) | (data(i + 1) << 8)
    elif op == 'write_hex_n':
        for j in range(2):
            m['cells'][i + j][1] = (data(i + j) & 0xF0) | ((m['t'][k] >> (4 * j)) & 15)
    elif op == 'write_byte_n':
        for j in range(2):
            m['cells'][i + j][1] = (m['u'][k] >> (8 * j)) & 0xFF
    elif op == 'xor_hex_to_ptr_n':
        for j in range(2):
            m['cells'][i + j][1] ^= (m['t'][k] >> (4 * j)) & 15
    elif op == 'xor_byte_to_ptr_n':
        for j in range(2):
            m['cells'][i + j][1] ^= (m['u'][k] >> (8 * j)) & 0xFF
    elif op == 'ptr_inc':
        m['ptr'][k] += 1
    elif op == 'ptr_dec':
        m['ptr'][k] -= 1
    elif op == 'ptr_add':
        m['ptr'][k] += 3
    elif op == 'ptr_sub':
        m['ptr'][k] -= 2
    elif op == 'ptr_index':
        m['q'][k] = m['ptr'][k] + m['idx'][k]
    elif op == 'read_nth_hex':
        m['d'][k] = data(i + m['idx'][k]) & 15
    elif op == 'read_nth_byte':
        m['e'][k] = data(i + m['idx'][k])
    elif op == 'write_nth_hex':
        t = i + m['idx'][k]
        m['cells'][t][1] = (data(t) & 0xF0) | m['s'][k]
    elif op == 'write_nth_byte':
        m['cells'][i + m['idx'][k]][1] = m['t'][k]
    elif op == 'read_nth_hex_into_index':
        v = m['idx'][k] & ((1 << w) - 1)
        m['idx'][k] = (v & ~0xF) | (data(i + m['idx'][k]) & 15)
    elif op == 'read_nth_byte_into_index':
        v = m['idx'][k] & ((1 << w) - 1)
        m['idx'][k] = (v & ~0xFF) | data(i + m['idx'][k])
    else:
        raise ValueError(op)


PAIRS = [('read_hex', 'write_hex'), ('write_hex', 'read_hex'), ('read_byte', 'write_byte'), ('write_byte', 'read_byte'), ('xor_hex_to_ptr', 'xor_hex_from_ptr'),
         ('xor_byte_to_ptr', 'xor_byte_from_ptr'), ('zero_ptr', 'read_byte'), ('ptr_flip_dbit', 'read_hex'), ('ptr_flip', 'ptr_flip_dbit'), ('ptr_wflip', 'read_byte'),
         ('ptr_wflip_2nd_word', 'write_hex'), ('read_hex_and_inc', 'read_hex_and_inc'), ('write_byte_and_inc', 'read_byte_and_inc'), ('write_hex_and_inc', 'xor_byte_from_ptr'),
         ('read_hex_n', 'write_byte_n'), ('write_hex_n', 'read_byte_n'), ('xor_hex_to_ptr_n', 'xor_byte_to_ptr_n'), ('ptr_inc', 'read_byte'), ('ptr_dec', 'write_byte'),
         ('ptr_add', 'xor_hex_to_ptr'), ('ptr_sub', 'read_hex'), ('ptr_index', 'ptr_index'), ('read_byte', 'ptr_flip'), ('xor_byte_from_ptr', 'zero_ptr'),
         ('write_nth_hex', 'read_nth_hex'), ('write_nth_byte', 'read_nth_byte'), ('read_nth_hex_into_index', 'read_nth_byte_into_index'),
         ('read_nth_byte_into_index', 'write_nth_hex')]


class ChainMem:
    """every other value set runs on ONE memory: the two call sites are executed again from the label 'again' with all
    visible state (buffer cells, pointers, variables) re-poked, so only hidden macro / pointer-register state carries
    over - as in a loop body"""

    def __init__(self, b, buf, dw, ww):
        self.b, self.mem = b, None
        self.cell_words = [((buf + c * dw) >> ww) + o for c in range(B) for o in (0, 1)]

    def get(self, chained):
        if not chained:
            return self.b.fresh(), None
        if self.mem is None:
            self.mem = self.b.fresh()
            self.orig = [(wa, self.mem.get_word(wa)) for wa in self.cell_words]
            return self.mem, None
        for wa, v in self.orig:
            self.mem.set_word(wa, v)
        return self.mem, 'again'


def hex_program(opa, opb, w):
    lines = ['stl.startup_and_init_all 16', 'again:', HEX_OPS[opa].format(k=0), HEX_OPS[opb].format(k=1), "stl.output_char '.'", 'stl.loop']
    n = nptr(w)
    for k in (0, 1):
        lines += ['p%d:' % k, 'hex.vec %d' % n, 'q%d:' % k, 'hex.vec %d' % n, 'idx%d:' % k, 'hex.vec %d' % n, 'd%d:' % k, 'hex.hex', 'e%d:' % k, 'hex.vec 2', 'f%d:' % k, 'hex.vec 4',
                  's%d:' % k, 'hex.hex', 't%d:' % k, 'hex.vec 2', 'u%d:' % k, 'hex.vec 4']
    # the buffer straddles a power-of-two address: cells 0..7 below, 8..15 above
    lines += ['segment (1 << 18) * dw - 8 * dw', 'buf:', 'rep(%d, i) hex.hex' % B, 'bufend:']
    return '\n'.join(lines) + '\n'


def hex_pair_case(opa, opb, w):
    return {'kind': 'hex-pair', 'opa': opa, 'opb': opb, 'w': w}


VALUE_SETS = [([0x00] * B, 0x0, 0x00), ([((17 * i + 5) & 0xFF) for i in range(B)], 0x9, 0xC3), ([0xFF] * B, 0xF, 0xFF), ([(i * 37 + 1) & 0x0F for i in range(B)], 0x6, 0x81)]


def run_hex_pair(case):
    opa, opb, w = case['opa'], case['opb'], case['w']
    try:
        b = benchmod.Bench(hex_program(opa, opb, w), w)
    except benchmod.BenchError as e:
        return Violation('c08:%s+%s:bench-program-does-not-assemble' % (opa, opb), {'error': str(e)[:500]}, [])
    dw = 2 * w
    ww = w.bit_length() - 1
    buf = b.addr('buf')
    n = nptr(w)
    cl = ['macro=' + opa, 'macro=' + opb, 'w=%d' % w]
    span = {'read_hex_n': 2, 'read_byte_n': 2, 'write_hex_n': 2, 'write_byte_n': 2, 'xor_hex_to_ptr_n': 2, 'xor_byte_to_ptr_n': 2}
    count = 0
    distinct = 0
    if case.get('values') == 'all':
        plan = [(([v] * B if k % 2 == 0 else [(v + 37 * c) & 0xFF for c in range(B)]), v & 15, (v * 7 + 3) & 0xFF if k == 2 else v)
                for v in range(256) for k in range(3)]
        pairs = [(3, 3), (7, 8), (12, 2)]
    else:
        plan = VALUE_SETS if case.get('full', True) else VALUE_SETS[:2]
        pairs = list(itertools.product(range(B), repeat=2))
    chain = ChainMem(b, buf, dw, ww)
    for vs_i, (cells0, sval, tval) in enumerate(plan):
        for i, j in pairs:
            lo = {'ptr_dec': 1, 'ptr_sub': 2}
            hi = {'ptr_inc': 1, 'ptr_add': 3, 'read_hex_and_inc': 0, 'write_hex_and_inc': 0}
            if i < lo.get(opa, 0) or i + span.get(opa, 1) + hi.get(opa, 0) > B or j < lo.get(opb, 0) or j + span.get(opb, 1) + hi.get(opb, 0) > B:
                continue
            idxs = [(-i if vs_i % 2 else (B - 1 - i)), (j // 2 - j)]
            model = {'cells': [[0, v] for v in cells0], 'ptr': [i, j], 'd': [3, 12], 'e': [0x21, 0xDE], 'f': [0x1234, 0xFEDC], 's': [sval, sval ^ 5],
                     't': [tval, tval ^ 0x3C], 'u': [0xA55A, 0x0FF0], 'q': [0, 0], 'idx': idxs}
            m_, start = chain.get(vs_i % 2 == 1)
            for c_i, v in enumerate(cells0):
                b.set(m_, buf + c_i * dw, 1, v, 8)
            for k in (0, 1):
                b.set(m_, 'p%d' % k, n, buf + model['ptr'][k] * dw)
                b.set(m_, 'idx%d' % k, n, model['idx'][k] & ((1 << w) - 1))
                b.set(m_, 'd%d' % k, 1, model['d'][k])
                b.set(m_, 'e%d' % k, 2, model['e'][k])
                b.set(m_, 'f%d' % k, 4, model['f'][k])
                b.set(m_, 's%d' % k, 1, model['s'][k])
                b.set(m_, 't%d' % k, 2, model['t'][k])
                b.set(m_, 'u%d' % k, 4, model['u'][k])
            apply_hex(opa, model, 0, w)
            apply_hex(opb, model, 1, w)
            r = b.run(m_, start=start)
            count += 1
            info = {'ops': [opa, opb], 'w': w, 'cells': [i, j], 'value_set': vs_i, 're_executed_on_same_memory': start is not None}
            if r['cause'] != 'Looping' or r['out'] != b'.':
                return Violation('c08:%s+%s:termination' % (opa, opb), dict(info, cause=r['cause'], out=r['out'].decode('latin-1'), fault=r['fault']), cl)
            for c_i in range(B):
                a = buf + c_i * dw
                flipw = m_.get_word(a >> ww)
                dataw = m_.get_word((a >> ww) + 1) >> (ww + 1)
                if dataw != model['cells'][c_i][1]:
                    what = 'pointed-cell' if c_i in (i, j, i + 1, j + 1) else 'another-cell-changed'
                    return Violation('c08:%s+%s:%s' % (opa, opb, what), dict(info, cell=c_i, got=dataw, expected=model['cells'][c_i][1]), cl)
                if flipw != model['cells'][c_i][0]:
                    return Violation('c08:%s+%s:cell-flip-word' % (opa, opb), dict(info, cell=c_i, got=flipw, expected=model['cells'][c_i][0]), cl)
            for k in (0, 1):
                checks = [('p', n, buf + model['ptr'][k] * dw), ('d', 1, model['d'][k]), ('e', 2, model['e'][k]), ('f', 4, model['f'][k]), ('s', 1, model['s'][k]),
                          ('t', 2, model['t'][k]), ('u', 4, model['u'][k]), ('idx', n, model['idx'][k] & ((1 << w) - 1))]
                if opa == 'ptr_index' or opb == 'ptr_index':
                    if (k == 0 and opa == 'ptr_index') or (k == 1 and opb == 'ptr_index'):
                        checks.append(('q', n, (buf + model['q'][k] * dw) & ((1 << w) - 1)))
                for nm, size, exp in checks:
                    got = b.get(m_, '%s%d' % (nm, k), size)
                    if got != exp:
                        return Violation('c08:%s+%s:variable-%s' % (opa, opb, nm), dict(info, var='%s%d' % (nm, k), got=got, expected=exp), cl)
            if i != j:
                distinct += 1
    return Ok(cl, distinct > 0, evals=count, distinct=distinct, sample={'ops': [opa, opb], 'w': w, 'runs': count})


# ------------------------------------------------------------------ bit-namespace pointers
BIT_OPS = {
    'xor_to_ptr': 'bit.xor_to_ptr p{k}, s{k}',
    'xor_from_ptr': 'bit.xor_from_ptr d{k}, p{k}',
    'ptr_flip_dbit': 'bit.ptr_flip_dbit p{k}',
    'ptr_flip': 'bit.ptr_flip p{k}',
    'ptr_wflip': 'bit.ptr_wflip p{k}, 0x31',
    'ptr_wflip_2nd_word': 'bit.ptr_wflip_2nd_word p{k}, dw',
    'ptr_inc': 'bit.ptr_inc p{k}',
    'ptr_dec': 'bit.ptr_dec p{k}',
}
BIT_PAIRS = [('xor_to_ptr', 'xor_from_ptr'), ('xor_from_ptr', 'xor_to_ptr'), ('ptr_flip_dbit', 'xor_from_ptr'), ('ptr_flip', 'ptr_flip_dbit'), ('ptr_wflip', 'xor_from_ptr'),
             ('ptr_wflip_2nd_word', 'xor_to_ptr'), ('ptr_inc', 'xor_from_ptr'), ('ptr_dec', 'xor_to_ptr')]


def bit_program(opa, opb, w):
    lines = ['stl.startup code_start', 'bit.pointers.ptr_init', 'code_start:', 'again:', BIT_OPS[opa].format(k=0), BIT_OPS[opb].format(k=1), "stl.output_char '.'", 'stl.loop']
    for k in (0, 1):
        lines += ['p%d:' % k, 'bit.vec %d' % w, 'd%d:' % k, 'bit.bit', 's%d:' % k, 'bit.bit']
    if w == 16:
        lines += ['buf:', 'rep(%d, i) bit.bit' % B]   # the 2^16-bit space is too small for a far buffer
    else:
        lines += ['segment (1 << 14) * dw - 8 * dw', 'buf:', 'rep(%d, i) bit.bit' % B]
    return '\n'.join(lines) + '\n'


def run_bit_pair(case):
    opa, opb, w = case['opa'], case['opb'], case['w']
    try:
        b = benchmod.Bench(bit_program(opa, opb, w), w)
    except benchmod.BenchError as e:
        if w == 16 and ('Not enough space' in str(e) or 'failed to add the segment' in str(e) or "doesn't fit in a 16-bits" in str(e)):
            return Discard('program does not fit the 2^16-bit address space')
        return Violation('c08:bit.%s+%s:bench-program-does-not-assemble' % (opa, opb), {'error': str(e)[:500]}, [])
    dw = 2 * w
    ww = w.bit_length() - 1
    buf = b.addr('buf')
    cl = ['macro=bit.' + opa, 'macro=bit.' + opb, 'w=%d' % w]
    count = distinct = 0
    chain = ChainMem(b, buf, dw, ww)
    for vs_i, cells0 in enumerate([[0] * B, [1] * B, [(i * 5 + 1) % 3 % 2 for i in range(B)]]):
        for i, j in itertools.product(range(B), repeat=2):
            if (opa == 'ptr_dec' and i < 1) or (opb == 'ptr_dec' and j < 1) or (opa == 'ptr_inc' and i + 1 >= B) or (opb == 'ptr_inc' and j + 1 >= B):
                continue
            cells = [[0, v] for v in cells0]
            ptr = [i, j]
            d = [1, 0]
            s = [1, vs_i & 1]
            m_, start = chain.get(vs_i >= 1)
            for c_i, v in enumerate(cells0):
                b.set(m_, buf + c_i * dw, 1, v, 1)
            for k in (0, 1):
                b.set(m_, 'p%d' % k, w, buf + ptr[k] * dw, 1)
                b.set(m_, 'd%d' % k, 1, d[k], 1)
                b.set(m_, 's%d' % k, 1, s[k], 1)
            for k, op in ((0, opa), (1, opb)):
                c = ptr[k]
                if op == 'xor_to_ptr':
                    cells[c][1] ^= s[k]
                elif op == 'xor_from_ptr':
                    d[k] ^= cells[c][1]
                elif op == 'ptr_flip_dbit':
                    cells[c][1] ^= 1
                elif op == 'ptr_flip':
                    cells[c][0] ^= 1
                elif op == 'ptr_wflip':
                    cells[c][0] ^= 0x31
                elif op == 'ptr_wflip_2nd_word':
                    cells[c][1] ^= 1
                elif op == 'ptr_inc':
                    ptr[k] += 1
                elif op == 'ptr_dec':
                    ptr[k] -= 1
            r = b.run(m_, start=start)
            count += 1
            info = {'ops': ['bit.' + opa, 'bit.' + opb], 'w': w, 'cells': [i, j], 'value_set': vs_i, 're_executed_on_same_memory': start is not None}
            if r['cause'] != 'Looping' or r['out'] != b'.':
                return Violation('c08:bit.%s+%s:termination' % (opa, opb), dict(info, cause=r['cause'], fault=r['fault']), cl)
            for c_i in range(B):
                a = buf + c_i * dw
                if (m_.get_word((a >> ww) + 1) >> (ww + 1)) != cells[c_i][1] or m_.get_word(a >> ww) != cells[c_i][0]:
                    what = 'pointed-cell' if c_i in (i, j) else 'another-cell-changed'
                    return Violation('c08:bit.%s+%s:%s' % (opa, opb, what), dict(info, cell=c_i, got=[m_.get_word(a >> ww), m_.get_word((a >> ww) + 1) >> (ww + 1)], expected=cells[c_i]), cl)
            for k in (0, 1):
                if b.get(m_, 'p%d' % k, w, 1) != buf + ptr[k] * dw or b.get(m_, 'd%d' % k, 1, 1) != d[k] or b.get(m_, 's%d' % k, 1, 1) != s[k]:
                    return Violation('c08:bit.%s+%s:variable' % (opa, opb), dict(info, k=k, p=b.get(m_, 'p%d' % k, w, 1), expected_p=buf + ptr[k] * dw,
                                                                                 d=b.get(m_, 'd%d' % k, 1, 1), expected_d=d[k]), cl)
            if i != j:
                distinct += 1
    return Ok(cl, distinct > 0, evals=count, distinct=distinct, sample={'ops': ['bit.' + opa, 'bit.' + opb], 'w': w, 'runs': count})


# ------------------------------------------------------------------ ptr_jump
def run_jump(case):
    w, ns = case['w'], case['ns']
    if ns == 'hex':
        lines = ['stl.startup_and_init_all 16', 'hex.ptr_jump p0']
        decl = ['p0:', 'hex.vec %d' % nptr(w)]
    else:
        lines = ['stl.startup code_start', 'bit.pointers.ptr_init', 'code_start:', 'bit.ptr_jump p0']
        decl = ['p0:', 'bit.vec %d' % w]
    lines += ["stl.output_char '!'", 'stl.loop'] + decl
    if w != 16:
        lines += ['segment (1 << 14) * dw - 4 * dw']
    for k in range(8):
        lines += ['tgt%d:' % k, ';cont%d' % k]
    for k in range(8):
        lines += ['cont%d:' % k, "stl.output_char 'a' + %d" % k, 'stl.loop']
    try:
        b = benchmod.Bench('\n'.join(lines) + '\n', w)
    except benchmod.BenchError as e:
        return Violation('c08:%s.ptr_jump:bench-program-does-not-assemble' % ns, {'error': str(e)[:500]}, [])
    for k in range(8):
        m_ = b.fresh()
        if ns == 'hex':
            b.set(m_, 'p0', nptr(w), b.addr('tgt%d' % k))
        else:
            b.set(m_, 'p0', w, b.addr('tgt%d' % k), 1)
        r = b.run(m_)
        if r['cause'] != 'Looping' or r['out'] != bytes([ord('a') + k]):
            return Violation('c08:%s.ptr_jump:wrong-target' % ns, {'w': w, 'target': k, 'out': r['out'].decode('latin-1'), 'cause': r['cause']}, ['macro=%s.ptr_jump' % ns])
    return Ok(['macro=%s.ptr_jump' % ns, 'w=%d' % w], True, evals=8, distinct=8)


def enumerations(tier):
    def cases(shard, nshards):
        k = 0
        for w in (64, 32):
            for opa, opb in PAIRS:
                k += 1
                if k % nshards == shard:
                    yield dict(hex_pair_case(opa, opb, w), full=(tier != 'quick'))
        for w in (64, 32):
            for opa, opb in (('read_byte', 'write_byte'), ('write_byte', 'read_byte'), ('xor_byte_to_ptr', 'xor_byte_from_ptr'), ('zero_ptr', 'read_byte'),
                             ('read_hex', 'write_hex'), ('xor_hex_to_ptr', 'xor_hex_from_ptr'), ('read_byte_n', 'write_byte_n'), ('ptr_wflip_2nd_word', 'read_byte_and_inc')):
                k += 1
                if k % nshards == shard:
                    yield dict(hex_pair_case(opa, opb, w), values='all')
        for w in (64, 32, 16):
            for opa, opb in BIT_PAIRS:
                k += 1
                if k % nshards == shard:
                    yield {'kind': 'bit-pair', 'opa': opa, 'opb': opb, 'w': w}
            for ns in ('hex', 'bit'):
                if ns == 'hex' and w == 16:
                    continue
                k += 1
                if k % nshards == shard:
                    yield {'kind': 'jump', 'w': w, 'ns': ns}
    return [{'name': 'all-ordered-cell-pairs-per-macro-pair', 'cases': cases, 'exhaustive': False}]


# ------------------------------------------------------------------ histories: stack + calls
@st.composite
def stack_histories(draw):
    d = D(draw)
    steps = []
    depth = 0  # stack cells in use (model)
    kinds = []  # what was pushed, to pop in matching form
    for _ in range(d.int(2, 14)):
        r = d.pct()
        if r < 45 or not kinds:
            k = d.choice(['hex', 'byte', 'n'])
            if k == 'hex':
                steps.append(['push_hex', d.int(0, 15)])
                kinds.append(('hex', 1))
            elif k == 'byte':
                steps.append(['push_byte', d.int(0, 255)])
                kinds.append(('byte', 1))
            else:
                n = d.choice([1, 2, 3, 4, 5])
                steps.append(['push', n, d.int(0, (1 << (4 * n)) - 1)])
                kinds.append(('n', n))
        elif r < 85:
            k = kinds.pop()
            if k[0] == 'n' and d.pct() < 20:
                steps.append(['sp_sub', (k[1] + 1) // 2])
            elif k[0] != 'n' and d.pct() < 15:
                steps.append([d.choice(['sp_dec', 'sp_sub1'])])
            else:
                steps.append(['pop_' + k[0] if k[0] != 'n' else 'pop', k[1]])
        else:
            steps.append(['peek-roundtrip', d.int(1, 3)])  # sp_add k ; sp_sub k
    while kinds:
        k = kinds.pop()
        steps.append(['pop_' + k[0] if k[0] != 'n' else 'pop', k[1]])
    # tight: the stack is declared with exactly the capacity the history needs (the documented maximal capacity is usable)
    return {'kind': 'stack', 'w': d.choice([64, 32]), 'steps': steps, 'tight': d.pct() < 40}


@st.composite
def call_trees(draw):
    d = D(draw)
    nfun = d.int(1, 5)
    funs = []
    for f in range(nfun):
        body = []
        for _ in range(d.int(0, 3)):
            r = d.pct()
            callees = list(range(f + 1, nfun))
            if callees and r < 55:
                c = d.choice(callees)
                body.append(['call', c] if d.pct() < 70 else ['call_k', c, d.int(1, 2)])
            elif r < 80:
                body.append(['local', d.int(0, 255)])
            elif callees:
                body.append(['fcall', d.choice(callees)])
        funs.append(body)
    return {'kind': 'calls', 'w': d.choice([64, 32]), 'funs': funs, 'tight': d.pct() < 40}


def families(tier):
    q = tier == 'quick'
    return [{'name': 'stack-histories', 'strategy': stack_histories, 'examples': 8 if q else 400},
            {'name': 'call-trees', 'strategy': call_trees, 'examples': 6 if q else 300}]


def run_stack(case):
    w = case['w']
    lines = ['stl.startup_and_init_all 60', 'stl.get_sp sp0']
    decl = []
    model_stack = []
    outs = []  # (var name, size, expected)
    vid = 0
    maxdepth = 0
    for stp in case['steps']:
        op = stp[0]
        if op == 'push_hex':
            vid += 1
            decl += ['c%d:' % vid, 'hex.hex %d' % stp[1]]
            lines.append('hex.push_hex c%d' % vid)
            model_stack.append(stp[1])
        elif op == 'push_byte':
            vid += 1
            decl += ['c%d:' % vid, 'hex.vec 2, %d' % stp[1]]
            lines.append('hex.push_byte c%d' % vid)
            model_stack.append(stp[1])
        elif op == 'push':
            vid += 1
            n, val = stp[1], stp[2]
            decl += ['c%d:' % vid, 'hex.vec %d, %d' % (n, val)]
            lines.append('hex.push %d, c%d' % (n, vid))
            for i in range((n + 1) // 2):
                model_stack.append((val >> (8 * i)) & 0xFF)
        elif op == 'pop_hex':
            vid += 1
            decl += ['c%d:' % vid, 'hex.hex 0xA']
            lines.append('hex.pop_hex c%d' % vid)
            outs.append(('c%d' % vid, 1, model_stack.pop() & 15))
        elif op == 'pop_byte':
            vid += 1
            decl += ['c%d:' % vid, 'hex.vec 2, 0x5A']
            lines.append('hex.pop_byte c%d' % vid)
            outs.append(('c%d' % vid, 2, model_stack.pop()))
        elif op == 'pop':
            vid += 1
            n = stp[1]
            decl += ['c%d:' % vid, 'hex.vec %d, 0' % n]
            lines.append('hex.pop %d, c%d' % (n, vid))
            cells = (n + 1) // 2
            chunk = model_stack[-cells:]
            del model_stack[-cells:]
            val = sum(v << (8 * i) for i, v in enumerate(chunk)) & ((1 << (4 * n)) - 1)
            outs.append(('c%d' % vid, n, val))
        elif op == 'sp_sub':
            lines.append('hex.sp_sub %d' % stp[1])
            del model_stack[-stp[1]:]
        elif op in ('sp_dec', 'sp_sub1'):
            lines.append('hex.sp_dec' if op == 'sp_dec' else 'hex.sp_sub 1')
            model_stack.pop()
        elif op == 'peek-roundtrip':
            lines += ['hex.sp_add %d' % stp[1], 'hex.sp_sub %d' % stp[1]] if stp[1] > 1 else ['hex.sp_inc', 'hex.sp_dec']
        maxdepth = max(maxdepth, len(model_stack))
    lines += ['stl.get_sp sp1', "stl.output_char '.'", 'stl.loop', 'sp0:', 'hex.vec %d' % nptr(w), 'sp1:', 'hex.vec %d' % nptr(w)] + decl
    tight = bool(case.get('tight')) and maxdepth >= 1
    if tight:
        lines[0] = 'stl.startup_and_init_all %d' % maxdepth
    src = '\n'.join(lines) + '\n'
    try:
        b = benchmod.Bench(src, w)
    except benchmod.BenchError as e:
        return Violation('c08:stack:does-not-assemble', {'error': str(e)[:500]}, [])
    cl = ['family=stack', 'w=%d' % w] + (['stack filled to its declared capacity'] if tight else [])
    m_ = b.fresh()
    r = b.run(m_)
    if r['cause'] != 'Looping' or r['out'] != b'.':
        return Violation('c08:stack:termination', {'cause': r['cause'], 'out': r['out'].decode('latin-1'), 'src': src[:900]}, cl)
    if model_stack:
        return Discard('unbalanced history generated')
    for name, size, exp in outs:
        got = b.get(m_, name, size)
        if got != exp:
            return Violation('c08:stack:popped-value', {'var': name, 'got': got, 'expected': exp, 'steps': case['steps']}, cl)
    if b.get(m_, 'sp0', nptr(w)) != b.get(m_, 'sp1', nptr(w)):
        return Violation('c08:stack:sp-not-restored', {'sp0': b.get(m_, 'sp0', nptr(w)), 'sp1': b.get(m_, 'sp1', nptr(w)), 'steps': case['steps']}, cl)
    if maxdepth >= 3:
        cl.append('stack depth>=3')
    return Ok(cl, maxdepth >= 3)


def run_calls(case):
    w = case['w']
    funs = case['funs']
    lines = ['stl.startup_and_init_all 80', 'stl.get_sp sp0', 'stl.call f0', 'stl.get_sp sp1', "stl.output_char '.'", 'stl.loop',
             'sp0:', 'hex.vec %d' % nptr(w), 'sp1:', 'hex.vec %d' % nptr(w)]
    decl = []
    vid = [0]
    locals_list = []

    def expected(f, depth):
        out = chr(ord('A') + f)
        md = depth
        for stp in funs[f]:
            if stp[0] in ('call', 'call_k', 'fcall'):
                s, d2 = expected(stp[1], depth + 1)
                out += s
                md = max(md, d2)
        return out + chr(ord('a') + f), md
    for f, body in enumerate(funs):
        lines += ['f%d:' % f, "stl.output_char 'A' + %d" % f]
        for stp in body:
            if stp[0] == 'call':
                lines.append('stl.call f%d' % stp[1])
            elif stp[0] == 'call_k':
                # push k parameter cells, the callee's frame is cleaned by the call itself
                for _ in range(stp[2]):
                    vid[0] += 1
                    decl += ['a%d:' % vid[0], 'hex.hex %d' % (vid[0] % 16)]
                    lines.append('hex.push_hex a%d' % vid[0])
                lines.append('stl.call f%d, %d' % (stp[1], stp[2]))
            elif stp[0] == 'fcall':
                # a fast-call wrapper: jumps to a stub that calls the function through the stack and frets back
                vid[0] += 1
                decl += ['r%d:' % vid[0], 'bit.vec w, 0']
                lines += ['stl.fcall stub%d, r%d' % (vid[0], vid[0]), ';after%d' % vid[0], 'stub%d:' % vid[0], 'stl.call f%d' % stp[1], 'stl.fret r%d' % vid[0], 'after%d:' % vid[0]]
            elif stp[0] == 'local':
                vid[0] += 1
                decl += ['l%d:' % vid[0], 'hex.vec 2, %d' % stp[1], 'm%d:' % vid[0], 'hex.vec 2, 0']
                locals_list.append((vid[0], stp[1]))
                lines += ['hex.push_byte l%d' % vid[0]]
                # the local is popped right before returning (LIFO inside the function)
                body_pop = 'hex.pop_byte m%d' % vid[0]
                lines.append('//POP:' + body_pop)
        # emit pops of this function's locals in reverse order at the end
        pops = [ln[6:] for ln in lines if ln.startswith('//POP:')]
        lines = [ln for ln in lines if not ln.startswith('//POP:')]
        lines += pops[::-1]
        lines += ["stl.output_char 'a' + %d" % f, 'stl.return']
    lines += decl
    memo = {}

    def cells(f):
        """maximal number of stack cells in use while f runs, above its own return address"""
        if f not in memo:
            cur = best = 0
            for stp in funs[f]:
                if stp[0] == 'local':
                    cur += 1
                    best = max(best, cur)
                elif stp[0] in ('call', 'fcall'):
                    best = max(best, cur + 1 + cells(stp[1]))
                elif stp[0] == 'call_k':
                    best = max(best, cur + stp[2] + 1 + cells(stp[1]))
            memo[f] = best
        return memo[f]
    need = 1 + cells(0)
    tight = bool(case.get('tight'))
    if tight:
        lines[0] = 'stl.startup_and_init_all %d' % need
    src = '\n'.join(lines) + '\n'
    try:
        b = benchmod.Bench(src, w)
    except benchmod.BenchError as e:
        return Violation('c08:calls:does-not-assemble', {'error': str(e)[:600]}, [])
    cl = ['family=calls', 'w=%d' % w] + (['stack filled to its declared capacity'] if tight else [])
    exp, md = expected(0, 1)
    if len(exp) > 3000:
        return Discard('call tree too large')
    m_ = b.fresh()
    r = b.run(m_)
    got = r['out'].decode('latin-1')
    if r['cause'] != 'Looping' or got != exp + '.':
        return Violation('c08:calls:marker-sequence', {'got': got[:200], 'expected': (exp + '.')[:200], 'cause': r['cause'], 'funs': funs}, cl)
    if b.get(m_, 'sp0', nptr(w)) != b.get(m_, 'sp1', nptr(w)):
        return Violation('c08:calls:sp-not-restored', {'funs': funs}, cl)
    # locals popped back equal what was pushed (only functions that were actually called pop anything)
    called = set()

    def mark(f):
        if f in called:
            return
        called.add(f)
        for stp in funs[f]:
            if stp[0] in ('call', 'call_k', 'fcall'):
                mark(stp[1])
    mark(0)
    fun_of_local = {}
    v = 0
    for f, body in enumerate(funs):
        for stp in body:
            if stp[0] == 'call_k':
                v += stp[2]
            elif stp[0] == 'fcall':
                v += 1
            elif stp[0] == 'local':
                v += 1
                fun_of_local[v] = f
    for lv, val in locals_list:
        if fun_of_local.get(lv) in called and b.get(m_, 'm%d' % lv, 2) != val:
            return Violation('c08:calls:local-not-restored', {'local': lv, 'got': b.get(m_, 'm%d' % lv, 2), 'expected': val, 'funs': funs}, cl)
    if md >= 2:
        cl.append('call depth>=2')
    if any(s[0] == 'fcall' for f in funs for s in f):
        cl.append('fcall/fret')
    return Ok(cl, md >= 2)


def run_case(case):
    k = case.get('kind')
    if k == 'hex-pair':
        return run_hex_pair(case)
    if k == 'bit-pair':
        return run_bit_pair(case)
    if k == 'jump':
        return run_jump(case)
    if k == 'stack':
        return run_stack(case)
    return run_calls(case)
