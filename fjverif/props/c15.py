"""C15 - debugging never changes the program and stops exactly where asked."""
import builtins
import contextlib
import io
import re

from hypothesis import strategies as st

from fjverif import machine, imagegen, engines
from fjverif.imagegen import D
from fjverif.runner import Ok, Violation, Discard

ID = 'C15'
LEVEL = 'exploration'
RULE = ('cases = execution-guided images with IO x breakpoint sets (executed ips, never-executed in-segment addresses, '
        'out-of-segment addresses, synthetic labels) x command scripts of <= 25 lines from the documented grammar in all '
        'spellings and letter cases (s/step, s N/skip N/skip 0xN, c/cont/continue, ca/c*/continue all, h/help/?, r/read '
        'with decimal, hex, label, :bN: :hN: :BN: with and without index, :f:N: :j:N:, unaligned, negative and '
        'out-of-segment targets, empty lines, junk, skip 0, skip x, q/quit/exit, premature end of input) run through the '
        'featured loop with builtins.input scripted.  Oracle = a model debugger over the reference machine trace: the '
        'sequence of pauses (address, ops executed), every value printed by a read against reference memory at that '
        'pause, and final output / cause / op count / memory against the undebugged reference.  non-trivial = >= 2 '
        'pauses, a skip with N >= 2 or a breakpoint hit twice, and >= 1 read')
ASSUMPTIONS = ['reference machine fjverif/machine.py', 'stdout of the debugger is parsed for "Address 0x.." / "N ops executed" / '
               '"memory[..] = V" lines (the documented message formats of this tree)']


@st.composite
def cases(draw):
    img = draw(imagegen.images(widths=(8, 16, 32, 64), max_steps_choices=(12, 30, 60)))
    d = D(draw)
    w = img['w']
    ww = w.bit_length() - 1
    ref = machine.run(w, img['segments'], img['input_bits'], budget=3000)
    ips = ref.ips if ref.cause != machine.BUDGET else ref.ips[:50]
    inseg = [((s + i) << ww) for s, l, dd in img['segments'] for i in range(0, min(l, 40), 1)]
    bps = set()
    for _ in range(d.int(0, 4)):
        r = d.pct()
        if r < 65 and ips:
            bps.add(d.choice(ips))
        elif r < 85 and inseg:
            bps.add(d.choice(inseg))
        else:
            bps.add(d.int(0, (1 << w) - 1))
    if d.pct() < 50:
        bps.add(0)
    labels = {}
    for i in range(d.int(0, 3)):
        # names incl. ones that also read as numbers in some base (a read target is a label first, a number second)
        labels[d.choice(['lab%d' % i, 'lab%d' % i, 'a%d' % i, 'f', 'cafe', 'dead_beef', 'x%d' % i, 'e%d' % i])] = d.choice(inseg) & ~(w - 1)

    def target():
        r = d.pct()
        a = d.choice(inseg) if inseg else 0
        if r < 20:
            return str(a)
        if r < 35:
            return hex(a)
        if r < 45 and labels:
            return d.choice(sorted(labels))
        if r < 55:
            return ':b%d:%s' % (d.int(1, 6), a)
        if r < 63:
            return ':h%d:%d:%s' % (d.int(1, 4), d.int(0, 2), hex(a))
        if r < 70:
            return ':B%d:%s' % (d.int(1, 3), d.choice(sorted(labels)) if labels else a)
        if r < 76:
            return ':f:%d:%s' % (d.int(0, 3), a)
        if r < 82:
            return ':j:%d:%d:%s' % (d.int(1, 2), d.int(0, 2), a)
        if r < 87:
            return str(a + d.int(1, w - 1))  # unaligned
        if r < 91:
            return str(-a - w)
        if r < 96:
            return str(d.int(0, (1 << w) - 1) & ~(w - 1))
        return d.choice(['nolabel', ':b4:nolabel', '0xzz', str(1 << w), ':h:' + str(a)])
    script = []
    for _ in range(d.int(0, 25)):
        r = d.pct()
        if r < 22:
            script.append([d.choice(['s', 'step', 'S', 'Step', 'STEP', ' s ']), 'step', 0])
        elif r < 37:
            n = d.choice([1, 2, 3, 5, 10, d.int(1, 40)])
            script.append([d.choice(['s %d', 'skip %d', 'skip 0x%x', 'SKIP %d', 'S %d']) % n, 'skip', n])
        elif r < 50:
            script.append([d.choice(['c', 'cont', 'continue', 'C', 'Continue']), 'continue', 0])
        elif r < 54:
            script.append([d.choice(['ca', 'c*', 'continue all', 'CA', 'Continue All']), 'continue_all', 0])
        elif r < 60:
            script.append([d.choice(['h', 'help', '?', 'HELP']), 'noop', 0])
        elif r < 85:
            t = target()
            script.append([d.choice(['r %s', 'read %s', 'R %s', 'Read %s']) % t, 'read', t])
        elif r < 93:
            script.append([d.choice(['', '   ', 'xyz', 'skip 0', 'skip x', 'skip -3', 'stepp', 'r', 'read', 'go 5']), 'noop', 0])
        else:
            script.append([d.choice(['q', 'quit', 'exit', 'Q']), 'exit', 0])
    # most sessions should run to completion instead of ending at the script's end (= quit): finish with continue(s)
    if d.pct() < 70:
        script += [[d.choice(['c', 'continue', 'cont']), 'continue', 0]] * d.int(1, 6)
        if d.pct() < 60:
            script.append([d.choice(['ca', 'c*', 'continue all']), 'continue_all', 0])
    img['breakpoints'] = sorted(bps)
    img['labels'] = labels
    # which entry point builds the handler: fjm_run.run with a BreakpointHandler, or the quickstart flipjump.debug()
    # (breakpoints given as addresses / exact label names / label substrings, label table from a debug file)
    img['route'] = 'quickstart' if d.pct() < 45 else 'direct'
    img['bp_as_label'] = d.pct() < 50
    img['script'] = script
    return img


def families(tier):
    q = tier == 'quick'
    return [{'name': 'debug-sessions', 'strategy': cases, 'examples': 500 if q else 25000}]


def read_model(w, m, labels, target):
    """what the documented read command prints: ('word'|'var'|'bad'|'fail'|'invalid', address/first, value)"""
    ww = w.bit_length() - 1
    prefix = None
    mt = re.match(r':([bhBfj])(\d*):(\d+:)?([^:]*)', target)
    if mt:
        vt, vl, idx, target = mt.groups()
        prefix = (vt, int(vl) if vl != '' else 1, int(idx[:-1]) if idx else 0)
    if target in labels:
        address = labels[target]
    else:
        try:
            address = int(target)
        except ValueError:
            try:
                address = int(target, 16)
            except ValueError:
                return ('invalid', None, None)
    if address % w != 0 or address < 0 or address >= (1 << w):
        return ('bad', address, None)

    def getword(ba):
        wa = ba >> ww
        v = m.peek(wa)
        if v is None:
            raise KeyError(wa)
        return v
    try:
        if prefix and prefix[0] in 'fj':
            add_w = 2 * prefix[1] * prefix[2] + (1 if prefix[0] == 'j' else 0)
            address += w * add_w
            prefix = None
        if prefix is None:
            return ('word', address, getword(address))
        vt, vl, idx = prefix
        first = address + 2 * vl * idx * w
        last = first + 2 * w * vl
        bits = {'b': 1, 'h': 4, 'B': 8}[vt]
        val = 0
        words = [getword(a) for a in range(first + w, last, 2 * w)]
        for word in words[::-1]:
            val = (val << bits) | ((word >> (ww + 1)) & ((1 << bits) - 1))
        return ('var', first, val)
    except KeyError:
        return ('fail', address, None)


PAUSE_RE = re.compile(r'==== (Breakpoint|Debug Step) ====\nAddress (0x[0-9a-f]+)[^\n]*\n(?:[^\n]*\n)*?\n?(\d+) ops executed')


def run_case(case):
    from flipjump.interpreter.debugging.breakpoints import BreakpointHandler
    from flipjump.interpreter import fjm_run
    w = case['w']
    ww = w.bit_length() - 1
    segs = case['segments']
    ref = machine.run(w, segs, case['input_bits'], budget=3000)
    if ref.cause == machine.BUDGET:
        return Discard('reference budget')
    bps = set(case['breakpoints'])
    labels = case['labels']
    # ---- model session
    n_exec = len(ref.ips)  # loop iterations started (the last may have faulted / hit EOF)
    script = list(case['script'])
    pos = 0
    next_break = None
    handler_alive = True
    expected_events = []  # ('pause', address, ops) / ('read', kind, addr, value)
    quit_at = None
    t = 0
    hits = {}
    skipped_big = False
    while t < n_exec and handler_alive and quit_at is None:
        ip = ref.ips[t]
        if next_break == t or ip in bps:
            expected_events.append(('pause', ip, t))
            hits[ip] = hits.get(ip, 0) + 1
            mem_machine = None
            while True:
                if pos >= len(script):
                    quit_at = t
                    break
                text, cat, arg = script[pos]
                pos += 1
                if cat == 'noop':
                    continue
                if cat == 'read':
                    if mem_machine is None:
                        mem_machine = machine.Machine(w, segs, case['input_bits'], budget=t)
                        mem_machine.run()
                    expected_events.append(('read',) + read_model(w, mem_machine, labels, arg))
                    continue
                if cat == 'step':
                    next_break = t + 1
                elif cat == 'skip':
                    next_break = t + arg
                    if arg >= 2:
                        skipped_big = True
                elif cat == 'continue':
                    next_break = None
                elif cat == 'continue_all':
                    next_break = None
                    handler_alive = False
                elif cat == 'exit':
                    quit_at = t
                break
        t += 1
    # ---- real session
    path = engines.tmpdir() / 'c15.fjm'
    engines.write_image(path, w, segs, case['version'])
    lines = [s[0] for s in script]
    it = iter(lines)

    def fake_input(prompt=''):
        try:
            return next(it)
        except StopIteration:
            raise EOFError()
    a2l = {}
    for name, addr in labels.items():
        if addr not in a2l or len(name) < len(a2l[addr]):
            a2l[addr] = name
    handler = BreakpointHandler({a: None for a in bps}, dict(a2l), dict(labels))
    dev = engines.make_rec_device(case['input_bits'])
    route = case.get('route', 'direct')
    if route == 'quickstart':
        import flipjump
        from flipjump.utils.functions import save_debugging_labels
        dbg = engines.tmpdir() / 'c15.fjd'
        save_debugging_labels(dbg, dict(labels))
        by_addr, by_name = set(bps), set()
        if case.get('bp_as_label'):
            # a breakpoint whose address carries a label is requested by that label's exact name instead
            for name, addr in sorted(labels.items()):
                if addr in by_addr:
                    by_addr.discard(addr)
                    by_name.add(name)
    buf = io.StringIO()
    old_input = builtins.input
    builtins.input = fake_input
    exc = None
    ts = None
    try:
        with contextlib.redirect_stdout(buf), engines.hang_guard(60):
            if route == 'quickstart':
                ts = flipjump.debug(path, dbg, breakpoints_addresses=by_addr or None, breakpoints=by_name or None,
                                    io_device=dev, print_time=False, print_termination=False)
            else:
                ts = fjm_run.run(path, io_device=dev, breakpoint_handler=handler)
    except BaseException as e:  # noqa
        if isinstance(e, (SystemExit, MemoryError)):
            raise
        exc = e
    finally:
        builtins.input = old_input
    out = buf.getvalue()
    cl = ['w=%d' % w, 'route=' + route]
    if exc is not None:
        return Violation('c15:exception:' + type(exc).__name__, {'exc': repr(exc)[:300], 'stdout_tail': out[-400:]}, cl)
    # ---- parse the transcript
    events = []
    for mt in re.finditer(r'==== (Breakpoint|Debug Step) ====\nAddress (0x[0-9a-f]+)|(\d+) ops executed\.|'
                          r'==== (Read Memory|Reading FlipJump Variable|Bad memory address|Read Memory Failure|Invalid memory address\.) ====\n([^\n]*)\n?([^\n]*)', out):
        if mt.group(1):
            events.append(['pause', int(mt.group(2), 16), mt.group(1), None])
        elif mt.group(3) is not None:
            if events and events[-1][0] == 'pause' and events[-1][3] is None:
                events[-1][3] = int(mt.group(3))
        else:
            title, l1, l2 = mt.group(4), mt.group(5), mt.group(6)
            if title == 'Read Memory':
                m2 = re.search(r'memory\[(0x[0-9a-f]+)\] = (\d+)  \(or (0x[0-9a-f]+)\)', l2)
                events.append(['read', 'word', int(m2.group(1), 16), int(m2.group(2))] if m2 else ['read', 'unparsed', l2, None])
            elif title == 'Reading FlipJump Variable':
                m2 = re.search(r'memory\[(0x[0-9a-f]+), (0x[0-9a-f]+)\) = (\d+)', l2)
                events.append(['read', 'var', int(m2.group(1), 16), int(m2.group(3))] if m2 else ['read', 'unparsed', l2, None])
            elif title == 'Bad memory address':
                events.append(['read', 'bad', None, None])
            elif title == 'Read Memory Failure':
                events.append(['read', 'fail', None, None])
            else:
                events.append(['read', 'invalid', None, None])
    # ---- compare event sequences
    exp = []
    for e in expected_events:
        if e[0] == 'pause':
            exp.append(['pause', e[1], 'Breakpoint' if e[1] in bps else 'Debug Step', e[2]])
        else:
            kind, addr, val = e[1], e[2], e[3]
            exp.append(['read', kind, addr if kind in ('word', 'var') else None, val])
    # a pause at an op that cannot be displayed (its flip or jump word is outside every segment)
    if events != exp:
        i = next((i for i, (a, b) in enumerate(zip(events, exp)) if a != b), min(len(events), len(exp)))
        key = 'c15:pause-or-read-sequence'
        got_i = events[i] if i < len(events) else None
        exp_i = exp[i] if i < len(exp) else None
        if exp_i and exp_i[0] == 'pause' and (got_i is None or got_i[0] != 'pause') and ts is not None \
                and ts.termination_cause.name == 'RuntimeMemoryError':
            key = 'c15:pause-prefetch-faults-before-op'
        elif exp_i and got_i and exp_i[0] == 'read' and got_i[0] == 'read':
            key = 'c15:read-value'
        return Violation(key, {'index': i, 'got': got_i, 'expected': exp_i, 'n_got': len(events), 'n_expected': len(exp),
                               'script': lines[:30], 'breakpoints': sorted(bps)[:8],
                               'termination': [ts.termination_cause.name, ts.op_counter] if ts else None}, cl)
    # ---- final result
    if quit_at is not None:
        if ts.termination_cause.name != 'KeyboardInterrupt' or ts.op_counter != quit_at:
            return Violation('c15:quit-not-keyboardinterrupt-at-pause', {'got': [ts.termination_cause.name, ts.op_counter], 'expected_ops': quit_at}, cl)
        refq = machine.Machine(w, segs, case['input_bits'], budget=quit_at)
        rq = refq.run()
        if dev.calls != rq.calls:
            return Violation('c15:io-before-quit', {'got': dev.calls[-8:], 'expected': rq.calls[-8:]}, cl)
        cl.append('quit')
    else:
        got = (ts.termination_cause.name, ts.op_counter, ts.memory_error_address, dev.calls)
        want = (ref.cause, ref.ops, ref.fault, ref.calls)
        if got != want:
            key = 'c15:debugged-run-differs'
            return Violation(key, {'got': list(got[:3]) + [got[3][-8:]], 'expected': list(want[:3]) + [want[3][-8:]], 'script': lines[:30]}, cl)
        refm = machine.Machine(w, segs)
        refm.mem = ref.mem
        for s, l, dd in segs:
            for wa in range(s, s + min(l, 1024)):
                if dev.mem.read_word(wa) != refm.peek(wa):
                    return Violation('c15:final-memory-differs', {'word': wa, 'got': dev.mem.read_word(wa), 'expected': refm.peek(wa)}, cl)
    # ---- the same handler object drives a second run of the same image (a debugger front-end re-running the program):
    # the breakpoints it was built with still hold.  Only when the first session left no step / skip pending
    # (next_break is an absolute op count that the handler keeps).
    if route == 'direct' and quit_at is None and next_break is None and bps:
        first_hit = next((t2 for t2, ip2 in enumerate(ref.ips[:n_exec]) if ip2 in bps), None)
        it2 = iter(['q'])

        def fake_input2(prompt=''):
            try:
                return next(it2)
            except StopIteration:
                raise EOFError()
        dev2 = engines.make_rec_device(case['input_bits'])
        buf2 = io.StringIO()
        builtins.input = fake_input2
        try:
            with contextlib.redirect_stdout(buf2), engines.hang_guard(60):
                ts2 = fjm_run.run(path, io_device=dev2, breakpoint_handler=handler)
        except BaseException as e:  # noqa
            if isinstance(e, (SystemExit, MemoryError)):
                raise
            return Violation('c15:second-run-with-the-same-handler:exception:' + type(e).__name__, {'exc': repr(e)[:300]}, cl)
        finally:
            builtins.input = old_input
        got2 = (ts2.termination_cause.name, ts2.op_counter)
        want2 = ('KeyboardInterrupt', first_hit) if first_hit is not None else (ref.cause, ref.ops)
        if got2 != want2:
            return Violation('c15:second-run-with-the-same-handler', {'got': list(got2), 'expected': list(want2), 'breakpoints': sorted(bps)[:8],
                                                                    'first_session_script': lines[:30]}, cl)
        cl.append('handler re-used for a second run')
    npauses = sum(1 for e in exp if e[0] == 'pause')
    nreads = sum(1 for e in exp if e[0] == 'read')
    for e in exp:
        if e[0] == 'read':
            cl.append('read:' + e[1])
    if npauses:
        cl.append('pauses>=1')
    if any(v >= 2 for v in hits.values()):
        cl.append('breakpoint hit twice')
    if skipped_big:
        cl.append('skip N>=2')
    if not handler_alive:
        cl.append('continue all')
    nt = npauses >= 2 and (skipped_big or any(v >= 2 for v in hits.values())) and nreads >= 1
    return Ok(sorted(set(cl)), nt)
