"""C07 - results and final memory do not depend on engine or storage layout."""
from hypothesis import strategies as st

from fjverif import machine, imagegen, engines
from fjverif.runner import Ok, Violation, Discard

ID = 'C07'
LEVEL = 'exploration'
RULE = ('(programs) a dozen repository programs (hello world, cat, decimal print, hex mul, bit pointers, rotate ...) assembled at w=32/64 and versions '
        '0-3, run with drawn input under drawn configurations; the reference machine runs the image decoded by the independent '
        'decoder (thousands of ops per run).  (images) cases = execution-guided images (sparse layouts favoured: page edges, flat-window edge, 2^20..2^57 words, top '
        'of space, lazy zero tails, w=64 words equal to / one flip away from the fill constant) x a drawn list of run '
        'configurations: featured, fast, native default, and native with flat_max_words in {1,2,3,5,7, segment '
        'edges +-1, 2^14+-1, 2^22}, FLIPJUMP_NO_FLAT (paged), last-ops ring length {1,2,3,10,>ops}, speculation '
        'measurement.  Every configuration is compared with the reference machine: cause, op count, fault address, IO '
        'calls, last-ops list (= last L executed ips) and the final value of in-segment words read back through the '
        'DeviceMemory captured in attach_memory.  non-trivial = >= 2 distinct native storage modes exercised for the '
        'case and the reference executes >= 4 ops; distinct = sha256 of the case JSON')
ASSUMPTIONS = ['reference machine fjverif/machine.py', 'final memory compared on all words of segments <= 4096 words, '
               'otherwise on every word the reference touched + segment edges + data/tail boundary']

SPARSE = {
    8: ['compact', 'few', 'top'],
    16: ['few', 'lazytail', 'top', 'compact'],
    32: ['few', 'lazytail', 'pageedge', 'pageedge', 'high', 'top', 'window', 'window'],
    64: ['few', 'lazytail', 'pageedge', 'pageedge', 'high', 'high', 'top', 'window', 'window', 'magic', 'magic'],
}


@st.composite
def cases(draw):
    img = draw(imagegen.images(widths=(8, 16, 32, 64, 64), layouts=SPARSE, max_steps_choices=(6, 20, 40, 80)))
    d = imagegen.D(draw)
    edges = set()
    for s, l, data in img['segments']:
        for x in (s, s + l, s + len(data)):
            for dx in (-1, 0, 1):
                if x + dx > 0:
                    edges.add(x + dx)
    flat_choices = [1, 2, 3, 5, 7, (1 << 14) - 1, 1 << 14, (1 << 14) + 1, 1 << 22, None] + sorted(e for e in edges if e < (1 << 22))
    cfgs = []
    for _ in range(d.int(2, 5)):
        c = {'engine': 'native', 'flat': d.choice(flat_choices), 'no_flat': d.pct() < 20,
             'last_len': d.choice([None, None, 1, 2, 3, 10, 100000]), 'measure': d.pct() < 15}
        cfgs.append(c)
    for eng in ('featured', 'fast'):
        cfgs.append({'engine': eng, 'flat': None, 'no_flat': False, 'last_len': d.choice([None, 1, 3, 10]), 'measure': False})
    img['configs'] = cfgs
    return img


PROGRAMS = ['print_tests/hello_world', 'print_tests/cat', 'print_tests/hex_print_dec', 'sanity_checks/macro_hex_mul', 'sanity_checks/mathvec',
            'simple_math_checks/nadd', 'sanity_checks/macro_bit_pointer', 'print_tests/print_as_digit', 'sanity_checks/testbit',
            'sanity_checks/macro_rotate', 'print_tests/hello_no-stl', 'sanity_checks/macro_hex_input']


@st.composite
def program_cases(draw):
    d = imagegen.D(draw)
    name = d.choice(PROGRAMS)
    inp = draw(st.binary(min_size=0, max_size=12)) if name in ('print_tests/cat', 'sanity_checks/macro_hex_input') else b''
    cfgs = [{'engine': 'native', 'flat': d.choice([None, 1, 3, 100, 1 << 14, (1 << 14) + 1, 70000]), 'no_flat': d.pct() < 25,
             'last_len': d.choice([None, None, 2, 10]), 'measure': d.pct() < 15} for _ in range(d.int(1, 3))]
    cfgs.append({'engine': d.choice(['fast', 'featured']), 'flat': None, 'no_flat': False, 'last_len': d.choice([None, 3]), 'measure': False})
    return {'kind': 'program', 'program': name, 'w': d.choice([64, 32]), 'version': d.int(0, 3), 'input': list(inp), 'configs': cfgs}


@st.composite
def page_walks(draw):
    """a chain of ops spread over 20-90 distinct 16K-word pages, walked twice (the second round re-touches every page after
    the page table grew and the direct-mapped cache evicted it); every op flips a data bit in yet another page."""
    d = imagegen.D(draw)
    w = d.choice([64, 64, 32])
    ww = w.bit_length() - 1
    npages = d.choice([20, 34, 40, 66, 90])
    sd = d.int(0, (1 << 30) - 1)
    style = d.choice(['consecutive', 'stride', 'random', 'random'])
    span = (1 << 12) if w == 32 else d.choice([1 << 10, 1 << 20, 1 << 40])
    base, stride = d.int(1, 40), d.choice([1, 3, 16, 17])
    pages, seen = [], set()
    k = 0
    while len(pages) < npages:
        sd = (sd * 6364136223846793005 + 1442695040888963407) & ((1 << 64) - 1)
        pg = base + k * stride if style != 'random' else 1 + (sd >> 17) % span
        k += 1
        if pg not in seen and pg < span + 40 + 17 * 100:
            seen.add(pg)
            pages.append(pg)
    offs = [2 * ((sd >> (3 + i % 40)) % 4000) for i in range(npages)]
    # page 0 holds the entry op; page k: [op round 1][op round 2][data word pair]
    segs = []
    addr = [((pg << 14) + off) for pg, off in zip(pages, offs)]     # word address of the page's first op
    def bit(wa):
        return wa << ww
    for i in range(npages):
        tgt = addr[(i * 7 + 3) % npages] + 4            # the data pair of another page
        fbit1 = bit(tgt + 1) + ww + 1 + (i % 4)          # a data bit of its jump word
        fbit2 = bit(tgt) + (i % w)
        nxt1 = bit(addr[i + 1]) if i + 1 < npages else bit(addr[0] + 2)
        nxt2 = bit(addr[i + 1] + 2) if i + 1 < npages else bit(addr[i] + 2)   # the last op of round 2 halts on itself
        if i + 1 == npages:
            fbit2 = bit(tgt + 1) + ww + 2
        segs.append([addr[i], 6, [fbit1, nxt1, fbit2, nxt2, 0, 0]])
    segs.append([0, 2, [0, bit(addr[0])]])
    segs.sort()
    cfgs = [{'engine': 'native', 'flat': d.choice([None, 64, (1 << 14) + 1, 1 << 22]), 'no_flat': False, 'last_len': d.choice([None, 5]), 'measure': False},
            {'engine': 'native', 'flat': None, 'no_flat': True, 'last_len': d.choice([None, None, 3]), 'measure': d.pct() < 30},
            {'engine': d.choice(['fast', 'featured']), 'flat': None, 'no_flat': False, 'last_len': None, 'measure': False}]
    return {'kind': 'pagewalk', 'w': w, 'segments': segs, 'input_bits': [], 'version': d.int(0, 3), 'layout': 'pagewalk:%s:%d' % (style, npages),
            'configs': cfgs}


@st.composite
def long_ring_cases(draw):
    case = draw(imagegen.long_rings())
    d = imagegen.D(draw)
    case['configs'] = [{'engine': 'native', 'flat': None, 'no_flat': False, 'last_len': None, 'measure': d.pct() < 30},
                       {'engine': 'native', 'flat': d.choice([None, 7, 100]), 'no_flat': d.pct() < 50, 'last_len': d.choice([1, 10, 64]), 'measure': False},
                       {'engine': 'native', 'flat': d.choice([3, 600, None]), 'no_flat': d.pct() < 60, 'last_len': None, 'measure': d.pct() < 30},
                       {'engine': 'fast', 'flat': None, 'no_flat': False, 'last_len': d.choice([None, 10]), 'measure': False}]
    return case


def families(tier):
    q = tier == 'quick'
    return [{'name': 'guided-sparse', 'strategy': cases, 'examples': 1000 if q else 20000},
            {'name': 'assembled-programs', 'strategy': program_cases, 'examples': 12 if q else 400},
            {'name': 'page-walks', 'strategy': page_walks, 'examples': 12 if q else 400},
            {'name': 'long-rings', 'strategy': long_ring_cases, 'examples': 2 if q else 40}]


def program_image(case):
    """assemble a repository program with the real assembler; decode the file with the independent decoder"""
    import contextlib
    import io
    import os
    import flipjump
    from pathlib import Path
    from flipjump.fjm.fjm_consts import FJMVersion
    from fjverif import env, fjmref
    path = engines.tmpdir() / ('prog_%s_%d_%d.fjm' % (case['program'].replace('/', '_'), case['w'], case['version']))
    if not os.path.exists(path):
        with contextlib.redirect_stdout(io.StringIO()):
            flipjump.assemble([Path(env.REPO) / 'programs' / (case['program'] + '.fj')], path, memory_width=case['w'],
                              fjm_version=FJMVersion(case['version']), print_time=False, warning_as_errors=False,
                              use_stl='no-stl' not in case['program'])
    with open(path, 'rb') as f:
        img = fjmref.decode(f.read())
    segs = [[s_, l_, [img.value_at(s_ + i) for i in range(dl)]] for s_, l_, ds, dl in img.segments]
    return path, segs


def words_to_check(case, ref):
    out = set()
    for s, l, d in case['segments']:
        if l <= 4096 or case.get('kind') == 'program':
            out.update(range(s, s + min(l, 200000)))
        else:
            out.update(range(s, s + min(l, 64)))
            out.update(range(s + l - 8, s + l))
            out.update(range(max(s, s + len(d) - 4), min(s + l, s + len(d) + 4)))
    m = machine.Machine(case['w'], case['segments'])
    out.update(wa for wa in ref.touched if m.valid(wa))
    return sorted(out)


def run_case(case):
    w = case['w']
    if case.get('kind') == 'program':
        try:
            path, segs = program_image(case)
        except Exception as e:  # noqa
            return Discard('program does not assemble here: %s' % type(e).__name__)
        case = dict(case, segments=segs, layout='program:' + case['program'].split('/')[-1],
                    input_bits=[(b >> i) & 1 for b in case['input'] for i in range(8)])
        ref = machine.run(w, segs, case['input_bits'], budget=60000)
    else:
        segs = case['segments']
        ref = machine.run(w, segs, case['input_bits'], **({'budget': 1 << 21} if case.get('kind') == 'longring' else {}))
        path = engines.tmpdir() / 'c07.fjm'
        engines.write_image(path, w, segs, case['version'])
    if ref.cause == machine.BUDGET:
        return Discard('reference budget')
    refm = machine.Machine(w, segs)
    refm.mem = ref.mem
    check_words = words_to_check(case, ref)
    cl = ['w=%d' % w, 'layout=' + case['layout'], 'cause=' + ref.cause]
    modes = set()
    for cfg in case['configs']:
        dev = engines.make_rec_device(case['input_bits'])
        knobs = {'no_flat': cfg['no_flat'], 'measure': cfg['measure']}
        o = engines.run_engine(path, cfg['engine'], dev, last_len=cfg['last_len'], flat=cfg['flat'], knobs=knobs)
        tag = cfg['engine']
        if o.exc is not None:
            return Violation('c07:%s:exception:%s' % (tag, type(o.exc).__name__), {'config': cfg, 'exc': repr(o.exc)}, cl)
        got = (o.cause, o.ops, o.fault, o.dev.calls)
        exp = (ref.cause, ref.ops, ref.fault, ref.calls)
        if got != exp:
            what = 'cause' if got[0] != exp[0] else 'io-calls' if got[3] != exp[3] else 'op-count' if got[1] != exp[1] else 'fault-address'
            return Violation('c07:%s:%s' % (tag, what),
                             {'config': cfg, 'storage': o.storage,
                              'expected': {'cause': exp[0], 'ops': exp[1], 'fault': exp[2], 'calls': exp[3][:40]},
                              'got': {'cause': got[0], 'ops': got[1], 'fault': got[2], 'calls': got[3][:40]}}, cl)
        if cfg['last_len'] is not None:
            L = cfg['last_len']
            exp_last = ref.ips[-L:] if L else []
            if o.last_ops != exp_last:
                return Violation('c07:%s:last-ops' % tag, {'config': cfg, 'storage': o.storage, 'expected': exp_last[-12:],
                                                          'got': (o.last_ops or [])[-12:], 'got_len': len(o.last_ops or [])}, cl)
            cl.append('last-ops checked')
        if dev.mem is None:
            return Violation('c07:%s:no-device-memory' % tag, {'config': cfg}, cl)
        for wa in check_words:
            v = dev.mem.read_word(wa)
            e = refm.peek(wa)
            if v != e:
                return Violation('c07:%s:final-memory' % tag, {'config': cfg, 'storage': o.storage, 'word': wa,
                                                              'expected': e, 'got': v}, cl)
        if cfg['engine'] == 'native':
            modes.add(o.storage)
            cl.append('storage=%s' % o.storage)
            if cfg['measure'] and cfg['last_len'] in (None, 0):
                cl.append('measured loop')
            if cfg['last_len']:
                cl.append('ring loop (%s)' % o.storage)
    cl += sorted(ref.flags)
    if len(case['segments']) > 1 and any(not (segs[0][0] <= wa < segs[0][0] + segs[0][1]) for wa in ref.touched):
        cl.append('touches non-first segment')
    if w == 64 and any(v == imagegen.MAGIC for s, l, d in segs for v in d):
        cl.append('image holds the fill constant')
    if w == 64 and any(v == imagegen.MAGIC for wa, v in ref.mem.items()):
        cl.append('final memory holds the fill constant')
    if ref.ops >= 1000:
        cl.append('ops>=1000')
    nt = len(modes) >= 2 and ref.ops >= 4
    return Ok(cl, nt)
