"""C09 - library input/print/cast macros are exact inverses of the byte encoding."""
import itertools

from hypothesis import strategies as st

from fjverif import bench as benchmod
from fjverif.imagegen import D
from fjverif.runner import Ok, Violation, Discard

ID = 'C09'
LEVEL = 'exploration'
RULE = ('(print) every print macro (hex.output/print/print_as_digit/print_uint/print_int/print_dec_uint/print_dec_int, '
        'bit.output/print/print_str/print_as_digit/print_hex_uint/print_hex_int/print_dec_uint/print_dec_int) on poked '
        'values: exhaustive up to 12 bits (quick) / 16 bits (thorough), boundary values above (0, 9, 10, 99, 100, powers of ten '
        '+-1, most negative and neighbours, all-ones).  (input) every input macro (hex.input_hex/input/input_as_hex/'
        'input_dec_uint[_until]/input_dec_int[_until], bit.input_bit/input) on byte strings from a grammar: valid numerals '
        'of every length up to overflow, each terminator, an invalid byte at every position, empty input, missing '
        'terminator, leading zeros, -0, - alone, +; all 256 bytes through the single-byte casts.  (casts) stl.bit2hex / '
        'hex2bit, bit.bin2ascii/dec2ascii/hex2ascii/ascii2bin/ascii2dec/ascii2hex, bit.str over all source values.  '
        '(buffers) hex.input_ptr_line / print_ptr_text / print_ptr_line / fill_bytes / copy_bytes over drawn contents.  '
        'Oracle = Python int/bytes formatting and a small parser of the documented input grammar: output bytes, variable '
        'values, branch marker, termination cause and input bits consumed.  non-trivial = value >= 10 (print) / input with '
        '>= 2 digits or an invalid byte after >= 1 digit (input)')
ASSUMPTIONS = ['models transcribed from the doc comments of flipjump/stl/{hex,bit}/{input,output,casting}.fj, casting.fj, hex/strings.fj',
               'bit.print_as_digit n documents "lsb first" but, like its hex twin and every caller, prints the most significant digit first: '
               'the caller-consistent order is the oracle (documentation note)']


def HM(n):
    return (1 << (4 * n)) - 1


def sgn(v, bits):
    return v - (1 << bits) if v >> (bits - 1) else v


def hexs(v, upper):
    s = '%x' % v
    return s.upper() if upper else s


SPECS = {}


def spec(name, lines, vars_, model, values=None, inputs=None, ws=(64, 32), nt=None):
    SPECS[name] = {'name': name, 'lines': lines, 'vars': vars_, 'model': model, 'values': values, 'inputs': inputs, 'ws': ws, 'nt': nt}


def boundary(bits):
    mx = (1 << bits) - 1
    vals = {0, 1, 2, 9, 10, 11, 15, 16, 99, 100, 101, 255, 256, 999, 1000, 1001, mx, mx - 1, mx >> 1, (mx >> 1) + 1, (mx >> 1) + 2, (mx >> 1) - 1}
    p = 10
    while p <= mx:
        vals |= {p - 1, p, p + 1, mx - p, ((mx >> 1) + 1 + p) & mx}
        p *= 10
    return sorted(v for v in vals if 0 <= v <= mx)


def value_domain(bits, tier):
    lim = 12 if tier == 'quick' else 16
    if bits <= lim:
        return list(range(1 << bits)), True
    return boundary(bits), False


# ---------------------------------------------------------------- print specs
for n in (1, 2, 3, 4, 8):
    spec('hex.print_uint n=%d' % n, ['hex.print_uint %d, x, {P}, {U}' % n], {'x': ('hex', n)},
         lambda e, c, n=n: {'out': ('0x' if c['P'] else '') + hexs(e['x'], c['U'])}, values=4 * n)
    spec('hex.print_int n=%d' % n, ['hex.print_int %d, x, {P}, {U}' % n], {'x': ('hex', n)},
         lambda e, c, n=n: {'out': ('-' if sgn(e['x'], 4 * n) < 0 else '') + ('0x' if c['P'] else '') + hexs(abs(sgn(e['x'], 4 * n)), c['U'])}, values=4 * n)
    spec('hex.print_dec_uint n=%d' % n, ['hex.print_dec_uint %d, x' % n], {'x': ('hex', n)}, lambda e, c, n=n: {'out': str(e['x'])}, values=4 * n)
    spec('hex.print_dec_int n=%d' % n, ['hex.print_dec_int %d, x' % n], {'x': ('hex', n)}, lambda e, c, n=n: {'out': str(sgn(e['x'], 4 * n))}, values=4 * n)
    spec('hex.print_as_digit n=%d' % n, ['hex.print_as_digit %d, x, {U}' % n], {'x': ('hex', n)},
         lambda e, c, n=n: {'out': ('%0*x' % (n, e['x'])).upper() if c['U'] else '%0*x' % (n, e['x'])}, values=4 * n)
spec('hex.print_as_digit/1', ['hex.print_as_digit x, {U}'], {'x': ('hex', 1)}, lambda e, c: {'out': hexs(e['x'], c['U'])}, values=4)
spec('hex.output x2', ['hex.output x', 'hex.output x+dw'], {'x': ('hex', 2)}, lambda e, c: {'outb': bytes([e['x']])}, values=8)
spec('hex.print/1', ['hex.print x'], {'x': ('hex', 2)}, lambda e, c: {'outb': bytes([e['x']])}, values=8)
for nb in (1, 2, 3):
    spec('hex.print n=%d' % nb, ['hex.print %d, x' % nb], {'x': ('hex', 2 * nb)}, lambda e, c, nb=nb: {'outb': e['x'].to_bytes(nb, 'little')}, values=8 * nb)
spec('bit.output x8', ['rep(8, i) bit.output x+i*dw'], {'x': ('bit', 8)}, lambda e, c: {'outb': bytes([e['x']])}, values=8)
spec('bit.print/1', ['bit.print x'], {'x': ('bit', 8)}, lambda e, c: {'outb': bytes([e['x']])}, values=8)
spec('bit.print n=2', ['bit.print 2, x'], {'x': ('bit', 16)}, lambda e, c: {'outb': e['x'].to_bytes(2, 'little')}, values=16)
spec('bit.print_as_digit/1', ['bit.print_as_digit x'], {'x': ('bit', 1)}, lambda e, c: {'out': str(e['x'])}, values=1)
for n in (1, 3, 8, 11):
    spec('bit.print_as_digit n=%d' % n, ['bit.print_as_digit %d, x' % n], {'x': ('bit', n)}, lambda e, c, n=n: {'out': format(e['x'], '0%db' % n)}, values=n)
for n in (4, 8, 12, 16, 32):
    spec('bit.print_hex_uint n=%d' % n, ['bit.print_hex_uint %d, x, {P}' % n], {'x': ('bit', n)},
         lambda e, c, n=n: {'out': ('0x' if c['P'] else '') + ('%X' % e['x'])}, values=n)
    spec('bit.print_hex_int n=%d' % n, ['bit.print_hex_int %d, x, {P}' % n], {'x': ('bit', n)},
         lambda e, c, n=n: {'out': ('-' if sgn(e['x'], n) < 0 else '') + ('0x' if c['P'] else '') + ('%X' % abs(sgn(e['x'], n)))}, values=n)
for n in (1, 4, 7, 8, 12, 16, 31):
    spec('bit.print_dec_uint n=%d' % n, ['bit.print_dec_uint %d, x' % n], {'x': ('bit', n)}, lambda e, c, n=n: {'out': str(e['x'])}, values=n)
    if n > 1:
        spec('bit.print_dec_int n=%d' % n, ['bit.print_dec_int %d, x' % n], {'x': ('bit', n)}, lambda e, c, n=n: {'out': str(sgn(e['x'], n))}, values=n)


def _print_str(e, c, nchars):
    b = e['x'].to_bytes(nchars, 'little')
    return {'outb': b.split(b'\0')[0]}


for nchars in (1, 2, 3):
    spec('bit.print_str n=%d' % nchars, ['bit.print_str %d, x' % nchars], {'x': ('bit', 8 * nchars)},
         lambda e, c, k=nchars: _print_str(e, c, k), values=8 * nchars)

# ---------------------------------------------------------------- casts
spec('stl.bit2hex/1', ['stl.bit2hex h, b'], {'h': ('hex', 1), 'b': ('bit', 1)}, lambda e, c: {'vars': {'h': e['b']}}, values='all')
for n in (1, 3, 4, 5, 8, 9):
    spec('stl.bit2hex n=%d' % n, ['stl.bit2hex %d, h, b' % n], {'h': ('hex', (n + 3) // 4), 'b': ('bit', n)}, lambda e, c: {'vars': {'h': e['b']}}, values='b')
for n in (1, 2, 3):
    spec('stl.hex2bit n=%d' % n, ['stl.hex2bit %d, b, h' % n], {'b': ('bit', 4 * n), 'h': ('hex', n)}, lambda e, c: {'vars': {'b': e['h']}}, values='h')
spec('stl.hex2bit/1', ['stl.hex2bit b, h'], {'b': ('bit', 4), 'h': ('hex', 1)}, lambda e, c: {'vars': {'b': e['h']}}, values='h')
spec('bit.bin2ascii', ['bit.bin2ascii a, b'], {'a': ('bit', 8), 'b': ('bit', 1)}, lambda e, c: {'vars': {'a': 0x30 + e['b']}}, values='b')
spec('bit.dec2ascii', ['bit.dec2ascii a, d'], {'a': ('bit', 8), 'd': ('bit', 4)}, lambda e, c: {'vars': {'a': 0x30 + e['d']}} if e['d'] < 10 else None, values='d')
spec('bit.hex2ascii', ['bit.hex2ascii a, h'], {'a': ('bit', 8), 'h': ('bit', 4)}, lambda e, c: {'vars': {'a': ord('%X' % e['h'])}}, values='h')
spec('bit.ascii2bin', ['bit.ascii2bin err, b, a'], {'err': ('bit', 1), 'b': ('bit', 1), 'a': ('bit', 8)},
     lambda e, c: {'vars': {'err': 0, 'b': e['a'] - 0x30}} if e['a'] in (0x30, 0x31) else {'vars': {'err': 1}, 'free': ['b']}, values='a')
spec('bit.ascii2dec', ['bit.ascii2dec err, d, a'], {'err': ('bit', 1), 'd': ('bit', 4), 'a': ('bit', 8)},
     lambda e, c: {'vars': {'err': 0, 'd': e['a'] - 0x30}} if 0x30 <= e['a'] <= 0x39 else {'vars': {'err': 1}, 'free': ['d']}, values='a')


def _ascii2hex(e, c):
    ch = chr(e['a'])
    # the property asks casts to preserve the VALUE; whether the ascii source survives is not documented (it does not)
    if ch in '0123456789abcdefABCDEF':
        return {'vars': {'err': 0, 'h': int(ch, 16)}, 'free': ['a']}
    return {'vars': {'err': 1}, 'free': ['h', 'a']}


spec('bit.ascii2hex', ['bit.ascii2hex err, h, a'], {'err': ('bit', 1), 'h': ('bit', 4), 'a': ('bit', 8)}, _ascii2hex, values='a')


# ---------------------------------------------------------------- input specs (model: parse the byte string)
def _take(inp, k):
    if len(inp) < k:
        return None
    return inp[:k]


def m_input_hex(e, c, inp):
    # 4 bits = half a byte: two calls consume one byte
    if len(inp) < 1:
        return {'eof': True}
    return {'vars': {'x': inp[0]}, 'consumed_bits': 8}


spec('hex.input_hex x2', ['hex.input_hex x', 'hex.input_hex x+dw'], {'x': ('hex', 2)}, m_input_hex, inputs='bytes1')
spec('hex.input/1', ['hex.input x'], {'x': ('hex', 2)}, lambda e, c, inp: {'eof': True} if len(inp) < 1 else {'vars': {'x': inp[0]}, 'consumed_bits': 8}, inputs='bytes1')
spec('hex.input n=3', ['hex.input 3, x'], {'x': ('hex', 6)},
     lambda e, c, inp: {'eof': True} if len(inp) < 3 else {'vars': {'x': int.from_bytes(inp[:3], 'little')}, 'consumed_bits': 24}, inputs='bytes3')
spec('bit.input/1', ['bit.input x'], {'x': ('bit', 8)}, lambda e, c, inp: {'eof': True} if len(inp) < 1 else {'vars': {'x': inp[0]}, 'consumed_bits': 8}, inputs='bytes1')
# documentation note: the doc line says "little endian number"; the implementation - and its only caller,
# programs/concept_checks/segments.fj - put the FIRST input byte into the MOST significant byte. The caller-consistent order is the oracle.
spec('bit.input n=2', ['bit.input 2, x'], {'x': ('bit', 16)},
     lambda e, c, inp: {'eof': True} if len(inp) < 2 else {'vars': {'x': int.from_bytes(inp[:2], 'big')}, 'consumed_bits': 16}, inputs='bytes3')
spec('bit.input_bit x8', ['rep(8, i) bit.input_bit x+i*dw'], {'x': ('bit', 8)},
     lambda e, c, inp: {'eof': True} if len(inp) < 1 else {'vars': {'x': inp[0]}, 'consumed_bits': 8}, inputs='bytes1')


def m_input_as_hex(n):
    def f(e, c, inp):
        val = 0
        for i in range(n):
            if i >= len(inp):
                return {'eof': True}
            ch = chr(inp[i])
            if ch not in '0123456789abcdefABCDEF':
                return {'branch': 0, 'consumed_bits': 8 * (i + 1), 'free': ['x']}
            val = val * 16 + int(ch, 16)
        return {'vars': {'x': val}, 'consumed_bits': 8 * n}
    return f


spec('hex.input_as_hex/1', ['hex.input_as_hex x, {L0}'], {'x': ('hex', 1)}, m_input_as_hex(1), inputs='bytes1')
spec('hex.input_as_hex n=3', ['hex.input_as_hex 3, x, {L0}'], {'x': ('hex', 3)}, m_input_as_hex(3), inputs='hexdigits')


def m_dec(n, signed, until):
    def f(e, c, inp):
        i = 0
        neg = False
        val = 0
        if signed:
            if i >= len(inp):
                return {'eof': True}
            if inp[i] == 0x2D:
                neg = True
                i += 1
        while True:
            if i >= len(inp):
                return {'eof': True}
            b = inp[i]
            i += 1
            if 0x30 <= b <= 0x39:
                val = val * 10 + (b - 0x30)
                continue
            break
        if neg:
            val = -val
        val &= HM(n)
        if until:
            return {'vars': {'x': val, 's': b}, 'consumed_bits': 8 * i}
        if b in (0x0A, 0x00):
            return {'vars': {'x': val}, 'consumed_bits': 8 * i}
        return {'branch': 0, 'consumed_bits': 8 * i, 'free': ['x']}
    return f


for n in (1, 2, 4):
    spec('hex.input_dec_uint_until n=%d' % n, ['hex.input_dec_uint_until %d, x, s' % n], {'x': ('hex', n), 's': ('hex', 2)}, m_dec(n, False, True), inputs='decimal')
    spec('hex.input_dec_int_until n=%d' % n, ['hex.input_dec_int_until %d, x, s' % n], {'x': ('hex', n), 's': ('hex', 2)}, m_dec(n, True, True), inputs='decimal')
    spec('hex.input_dec_uint n=%d' % n, ['hex.input_dec_uint %d, x, {L0}' % n], {'x': ('hex', n)}, m_dec(n, False, False), inputs='decimal')
    spec('hex.input_dec_int n=%d' % n, ['hex.input_dec_int %d, x, {L0}' % n], {'x': ('hex', n)}, m_dec(n, True, False), inputs='decimal')


# ---------------------------------------------------------------- variants and programs
def consts_for(s):
    text = ' '.join(s['lines'])
    cs = [{}]
    if '{P}' in text:
        cs = [dict(c, P=p) for c in cs for p in (0, 1)]
    if '{U}' in text:
        cs = [dict(c, U=u) for c in cs for u in (0, 1)]
    return cs


def variants(tier):
    out = []
    for s in SPECS.values():
        for c in consts_for(s):
            for w in s['ws']:
                if tier == 'quick' and w == 32 and (c.get('P') or c.get('U')):
                    continue
                out.append({'spec': s['name'], 'consts': c, 'w': w})
    return out


def build_source(v):
    s = SPECS[v['spec']]
    c = dict(v['consts'])
    lines = ['stl.startup_and_init_all', 'again:']
    for ln in s['lines']:
        lines.append(ln.format(L0='L0', **{k: c.get(k) for k in ('P', 'U')}))
    lines += ["stl.output_char 'F'", ';done', 'L0:', "stl.output_char 'E'", ';done', 'done:', "stl.output_char '#'", 'stl.loop']
    for name, (kind, size) in s['vars'].items():
        lines += [name + ':', '%s.vec %d' % (kind, size), 'g_' + name + ':', 'hex.vec 2']
    return '\n'.join(lines) + '\n'


_benches = {}


def get_bench(v):
    key = (v['spec'], tuple(sorted(v['consts'].items())), v['w'])
    if key not in _benches:
        _benches[key] = benchmod.Bench(build_source(v), v['w'])
        if len(_benches) > 40:
            _benches.pop(next(iter(_benches)))
    return _benches[key]


BITS = {'hex': 4, 'bit': 1}


def run_one(b, v, values, inp, mem=None, start=None):
    s = SPECS[v['spec']]
    m_ = b.fresh() if mem is None else mem
    for name, (kind, size) in s['vars'].items():
        b.set(m_, name, size, values.get(name, 0), BITS[kind])
    r = b.run(m_, inp=inp, start=start)
    if s['inputs'] is not None:
        mod = s['model'](dict(values), v['consts'], inp)
    else:
        mod = s['model'](dict(values), v['consts'])
    if mod is None:
        return 'skip', None
    got_out = r['out']
    if mod.get('eof'):
        if r['cause'] != 'EOF':
            return 'expected-end-of-input-termination', {'cause': r['cause'], 'out': got_out.decode('latin-1'), 'input': list(inp)}
        return None, mod
    exp_out = mod.get('outb', mod.get('out', '').encode('latin-1')) + (b'E' if mod.get('branch') == 0 else b'F') + b'#'
    if r['cause'] != 'Looping':
        return 'termination', {'cause': r['cause'], 'fault': r['fault'], 'out': got_out.decode('latin-1')}
    if got_out != exp_out or r['out_bits_rem']:
        what = 'error-branch' if got_out[-2:-1] != exp_out[-2:-1] else 'output-bytes'
        return what, {'got': got_out.decode('latin-1'), 'expected': exp_out.decode('latin-1')}
    if 'consumed_bits' in mod and r['in_bits'] != mod['consumed_bits']:
        return 'input-bits-consumed', {'got': r['in_bits'], 'expected': mod['consumed_bits'], 'input': list(inp)}
    for name, (kind, size) in s['vars'].items():
        if name in mod.get('free', ()):
            continue
        exp = mod.get('vars', {}).get(name, values.get(name, 0))
        got = b.get(m_, name, size, BITS[kind])
        if got != exp:
            return ('variable:' if name in mod.get('vars', {}) else 'source-changed:') + name, {'var': name, 'got': got, 'expected': exp, 'input': list(inp)[:20]}
        if b.get(m_, 'g_' + name, 2) != 0:
            return 'stray-write-next-to:' + name, {}
    return None, mod


def decimal_inputs(n, tier):
    """byte strings from the documented grammar"""
    mx = HM(n)
    nums = sorted({0, 1, 9, 10, 99, 100, 255, 256, mx - 1, mx, mx + 1, mx * 10 + 7, (mx + 1) // 2, (mx + 1) // 2 - 1, (mx + 1) // 2 + 1, 12345, 4294967296, 10 ** 12 + 3})
    out = []
    for v_ in nums:
        s = str(v_)
        for term in (b'\n', b'\0', b' ', b'x', b':', b'/', b'-', b'+', b'a', b'\xff'):
            out.append(s.encode() + term + b'tail')
            out.append(b'-' + s.encode() + term)
        out.append(b'00' + s.encode() + b'\n')
        out.append(s.encode())            # missing terminator -> end of input
        for pos in range(len(s) + 1):
            for bad in (b'/', b':', b'A', b'-', b'\x80'):
                out.append(s[:pos].encode() + bad + s[pos:].encode() + b'\n')
    out += [b'', b'\n', b'\0', b'-', b'-\n', b'--5\n', b'+5\n', b'-0\n', b'- 5\n', b'\n5\n', b'0\n', b'-\0']
    if tier == 'quick':
        out = out[::3] + out[-12:]
    return out


def sweep_inputs(v, tier):
    s = SPECS[v['spec']]
    kind = s['inputs']
    if kind == 'bytes1':
        return [bytes([x]) + b'Z' for x in range(256)] + [b'']
    if kind == 'bytes3':
        base = [bytes([a, b_, c]) + b'Q' for a in (0, 1, 0x7F, 0x80, 0xFF) for b_ in (0, 0x34, 0xFF) for c in (0, 9, 0xF0)]
        return base + [b'', b'\x01', b'\x01\x02']
    if kind == 'hexdigits':
        digs = '0189afAFgG/:@`'
        out = [(a + b_ + c).encode() + b'!' for a in digs for b_ in digs[:8] for c in digs[:6]]
        return out + [b'', b'1', b'1f']
    if kind == 'decimal':
        n = s['vars']['x'][1]
        return decimal_inputs(n, tier)
    raise ValueError(kind)


def run_sweep(v, tier):
    s = SPECS[v['spec']]
    try:
        b = get_bench(v)
    except benchmod.BenchError as e:
        return Violation('c09:%s:bench-program-does-not-assemble' % v['spec'], {'error': str(e)[:600]}, [])
    cl = ['macro=' + v['spec'].split(' n=')[0], 'w=%d' % v['w']]
    count = nz = 0
    if s['inputs'] is not None:
        for inp in sweep_inputs(v, tier):
            count += 1
            bad, mod = run_one(b, v, {nm: (0x5 if k == 'hex' else 1) for nm, (k, sz) in s['vars'].items()}, inp)
            if bad and bad != 'skip':
                return Violation('c09:%s:%s' % (v['spec'].split(' n=')[0], bad), {'variant': v, 'input': list(inp)[:30], **mod}, cl)
            digits = sum(1 for x in inp if 0x30 <= x <= 0x39)
            if digits >= 2 or (mod and mod.get('branch') == 0):
                nz += 1
            if mod and mod.get('eof'):
                cl.append('ends by end of input')
            if mod and mod.get('branch') == 0:
                cl.append('error branch')
        dflt = {nm: (0x5 if k == 'hex' else 1) for nm, (k, sz) in s['vars'].items()}
        bad = run_chain(b, v, [(dflt, inp) for inp in sweep_inputs(v, tier)], tier)
        if bad:
            return Violation(bad[0], bad[1], cl + ['re-execution chain'])
        cl.append('re-execution chain')
        return Ok(sorted(set(cl)), nz > 0, evals=count, distinct=nz, sample={'variant': v, 'inputs': count})
    # value sweeps
    names = list(s['vars'])
    if s['values'] == 'all':
        doms = [value_domain(sz * BITS[k], tier)[0] for nm, (k, sz) in s['vars'].items()]
        tuples = [dict(zip(names, t)) for t in itertools.product(*doms)]
    elif isinstance(s['values'], str):
        nm = s['values']
        k, sz = s['vars'][nm]
        dom, _ = value_domain(sz * BITS[k], tier)
        others = {o: (HM(s['vars'][o][1]) & 0xA5A5A5A5 if s['vars'][o][0] == 'hex' else ((1 << s['vars'][o][1]) - 1) & 0x2DB6) for o in names if o != nm}
        tuples = [dict(others, **{nm: x}) for x in dom] + [dict({o: 0 for o in others}, **{nm: x}) for x in dom[:64]]
    else:
        dom, _ = value_domain(s['values'], tier)
        tuples = [{'x': x} for x in dom]
    for values in tuples:
        count += 1
        bad, mod = run_one(b, v, values, b'')
        if bad == 'skip':
            continue
        if bad:
            return Violation('c09:%s:%s' % (v['spec'].split(' n=')[0], bad), {'variant': v, 'values': values, **mod}, cl)
        if max(values.values()) >= 10:
            nz += 1
    bad = run_chain(b, v, [(values, b'') for values in tuples], tier)
    if bad:
        return Violation(bad[0], bad[1], cl + ['re-execution chain'])
    cl.append('re-execution chain')
    return Ok(cl, nz > 0, evals=count, distinct=nz, sample={'variant': v, 'values': count})


def run_chain(b, v, items, tier):
    """the same call site executed again and again on ONE memory (a macro used in a loop): a fixed pseudo-random walk
    over the sweep's (values, input) items.  An execution that ended the program (end of input) is not continued."""
    import random
    import zlib
    s = SPECS[v['spec']]
    items = list(items)
    random.Random(zlib.crc32(repr((v['spec'], sorted(v['consts'].items()), v['w'])).encode())).shuffle(items)
    mem = b.fresh()
    prev = None
    first = True
    done = 0
    for values, inp in items:
        if done >= (150 if tier == 'quick' else 1500):
            break
        mod = s['model'](dict(values), v['consts'], inp) if s['inputs'] is not None else s['model'](dict(values), v['consts'])
        if mod is None or mod.get('eof'):
            continue
        bad, mod = run_one(b, v, values, inp, mem=mem, start=None if first else 'again')
        first = False
        done += 1
        if bad and bad != 'skip':
            return ('c09:%s:re-execution:%s' % (v['spec'].split(' n=')[0], bad),
                    {'variant': v, 'execution_index': done - 1, 'previous': prev, 'values': values, 'input': list(inp)[:30], **(mod or {})})
        prev = {'values': values, 'input': list(inp)[:30]}
    return None


def enumerations(tier):
    def cases(shard, nshards):
        k = 0
        for v in variants(tier):
            k += 1
            if k % nshards == shard:
                yield dict(v, kind='sweep', tier=tier)
    return [{'name': 'print-input-cast-sweeps', 'cases': cases, 'exhaustive': False}]


# ---------------------------------------------------------------- drawn inputs / round trips / buffers
@st.composite
def drawn_decimal(draw):
    d = D(draw)
    n = d.choice([1, 2, 4, 8])
    pieces = []
    for _ in range(d.int(0, 3)):
        r = d.pct()
        if r < 50:
            pieces.append(str(d.int(0, 10 ** d.int(1, 12))).encode())
        elif r < 65:
            pieces.append(b'-')
        elif r < 80:
            pieces.append(d.choice([b'\n', b'\0', b' ', b'+']))
        else:
            pieces.append(bytes([d.int(0, 255)]))
    inp = b''.join(pieces) + d.choice([b'', b'\n', b'\0', b'x'])
    return {'kind': 'drawn-decimal', 'n': n, 'macro': d.choice(['uint_until', 'int_until', 'uint', 'int']), 'input': list(inp), 'w': d.choice([64, 32]),
            'roundtrip': d.int(0, HM(n))}


@st.composite
def buffer_cases(draw):
    d = D(draw)
    # lengths incl. the multiples of 16 (a length is a hex vector: its low hex is 0 there) - the buffers hold 40 bytes
    nd = d.choice([d.int(0, 24), d.int(0, 24), 15, 16, 17, 32, 33])
    data = [d.choice([d.int(1, 255), d.int(32, 126), 10, 0]) if d.pct() < 12 else d.int(32, 126) for _ in range(nd)]
    count = d.choice([d.int(0, 12), d.int(0, 12), 15, 16, 17, 32])
    return {'kind': 'buffer', 'w': d.choice([64, 32]), 'data': data, 'fill': d.int(0, 255), 'count': count, 'op': d.choice(['input_line', 'print_text', 'print_line', 'fill', 'copy'])}


def families(tier):
    q = tier == 'quick'
    return [{'name': 'drawn-decimal-inputs-and-round-trips', 'strategy': drawn_decimal, 'examples': 150 if q else 8000},
            {'name': 'byte-buffers', 'strategy': buffer_cases, 'examples': 25 if q else 1500}]


def run_drawn_decimal(case):
    n, w = case['n'], case['w']
    macro = case['macro']
    name = 'hex.input_dec_%s n=%d' % (macro, n)
    if name not in SPECS:
        spec(name, ['hex.input_dec_%s %d, x, %s' % (macro, n, 's' if macro.endswith('until') else '{L0}')],
             {'x': ('hex', n), 's': ('hex', 2)} if macro.endswith('until') else {'x': ('hex', n)},
             m_dec(n, macro.startswith('int'), macro.endswith('until')), inputs='decimal')
    v = {'spec': name, 'consts': {}, 'w': w}
    b = get_bench(v)
    inp = bytes(case['input'])
    bad, mod = run_one(b, v, {'x': 3, 's': 0x11}, inp)
    cl = ['family=drawn-decimal', 'w=%d' % w]
    if bad:
        return Violation('c09:hex.input_dec_%s:%s' % (macro, bad), {'n': n, 'input': case['input'][:40], **mod}, cl)
    # round trip: print_dec_int(x) fed back through input_dec_int gives x
    val = case['roundtrip']
    pname = 'hex.print_dec_int n=%d' % n
    if pname not in SPECS:
        spec(pname, ['hex.print_dec_int %d, x' % n], {'x': ('hex', n)}, lambda e, c, n=n: {'out': str(sgn(e['x'], 4 * n))}, values=4 * n)
    pb = get_bench({'spec': pname, 'consts': {}, 'w': w})
    m1 = pb.fresh()
    pb.set(m1, 'x', n, val)
    r1 = pb.run(m1)
    text = r1['out'][:-2]
    iname = 'hex.input_dec_int n=%d' % n
    if iname not in SPECS:
        spec(iname, ['hex.input_dec_int %d, x, {L0}' % n], {'x': ('hex', n)}, m_dec(n, True, False), inputs='decimal')
    ib = get_bench({'spec': iname, 'consts': {}, 'w': w})
    m2 = ib.fresh()
    r2 = ib.run(m2, inp=text + b'\n')
    back = ib.get(m2, 'x', n)
    if back != val or r2['out'] != b'F#':
        return Violation('c09:print_dec_int-input_dec_int-roundtrip', {'n': n, 'value': val, 'printed': text.decode('latin-1'), 'read_back': back}, cl)
    digits = sum(1 for x in inp if 0x30 <= x <= 0x39)
    return Ok(cl + ['round trip'], digits >= 2, evals=2)


def run_buffer(case):
    w = case['w']
    data = case['data']
    op = case['op']
    nptr = w // 4
    cap = 40
    lines = ['stl.startup_and_init_all']
    if op == 'input_line':
        lines += ['hex.input_ptr_line p, len']
    elif op == 'print_text':
        lines += ['hex.print_ptr_text p, len']
    elif op == 'print_line':
        lines += ['hex.print_ptr_line p, len']
    elif op == 'fill':
        lines += ['hex.fill_bytes p, len, val']
    else:
        lines += ['hex.copy_bytes p2, p, len']
    lines += ["stl.output_char '#'", 'stl.loop', 'p:', 'hex.vec %d, buf' % nptr, 'p2:', 'hex.vec %d, buf2' % nptr, 'len:', 'hex.vec %d' % nptr, 'val:', 'hex.vec 2',
              'pad 2', 'guardb:', 'hex.vec 2', 'buf:', 'hex.vec %d' % (2 * cap) if False else 'rep(%d, i) hex.vec 2' % cap, 'guardc:', 'hex.vec 2',
              'buf2:', 'rep(%d, i) hex.vec 2' % cap, 'guardd:', 'hex.vec 2']
    src = '\n'.join(lines) + '\n'
    try:
        b = benchmod.Bench(src, w)
    except benchmod.BenchError as e:
        return Violation('c09:buffers:does-not-assemble', {'error': str(e)[:500]}, [])
    cl = ['family=buffers', 'op=' + op, 'w=%d' % w]
    m_ = b.fresh()
    # a byte cell = one op whose data field holds 8 bits ("packed byte"): hex.vec 2 takes two ops, so buffers of byte cells
    # are laid out by the library as consecutive ops; here cells are addressed as the library's pointer macros do: one byte per op
    buf = b.addr('buf')
    buf2 = b.addr('buf2')
    dw = 2 * w

    def set_byte(base, i, val):
        b.set(m_, base + i * dw, 1, val, 8)

    def get_byte(base, i):
        return b.get(m_, base + i * dw, 1, 8)
    count = min(case['count'], len(data), cap - 2)
    if op in ('print_text', 'print_line', 'copy'):
        for i, x in enumerate(data[:cap - 2]):
            set_byte(buf, i, x)
    if op == 'print_line':
        term = len(data[:cap - 2])
        set_byte(buf, term, 0)
    b.set(m_, 'len', nptr, count if op != 'print_line' else 0)
    b.set(m_, 'val', 2, case['fill'])
    inp = bytes(data) if op == 'input_line' else b''
    r = b.run(m_, inp=inp)
    if op == 'input_line':
        # bytes until '\n' or 0 (or end of input -> run ends by EOF)
        stop = next((i for i, x in enumerate(data) if x in (10, 0)), None)
        if stop is None:
            if r['cause'] != 'EOF':
                return Violation('c09:hex.input_ptr_line:expected-end-of-input', {'cause': r['cause'], 'data': data}, cl)
            return Ok(cl + ['ends by end of input'], len(data) >= 2)
        if stop >= cap - 1:
            return Discard('line longer than the buffer')
        if r['cause'] != 'Looping' or r['out'] != b'#':
            return Violation('c09:hex.input_ptr_line:termination', {'cause': r['cause'], 'out': r['out'].decode('latin-1')}, cl)
        got = [get_byte(buf, i) for i in range(stop)]
        if got != data[:stop] or b.get(m_, 'len', nptr) != stop:
            return Violation('c09:hex.input_ptr_line:content', {'got': got, 'expected': data[:stop], 'len': b.get(m_, 'len', nptr)}, cl)
        if r['in_bits'] != 8 * (stop + 1):
            return Violation('c09:hex.input_ptr_line:input-bits-consumed', {'got': r['in_bits'], 'expected': 8 * (stop + 1)}, cl)
    elif op == 'print_text':
        if r['cause'] != 'Looping' or r['out'] != bytes(data[:count]) + b'#':
            return Violation('c09:hex.print_ptr_text:output', {'got': list(r['out']), 'expected': data[:count], 'cause': r['cause']}, cl)
    elif op == 'print_line':
        src_bytes = data[:cap - 2] + [0]
        stop = next(i for i, x in enumerate(src_bytes) if x in (10, 0))
        exp = bytes(src_bytes[:stop]) + (b'\n' if src_bytes[stop] == 10 else b'')
        if r['cause'] != 'Looping' or r['out'] != exp + b'#':
            return Violation('c09:hex.print_ptr_line:output', {'got': list(r['out']), 'expected': list(exp), 'cause': r['cause']}, cl)
        if b.get(m_, 'len', nptr) != stop:
            return Violation('c09:hex.print_ptr_line:len', {'got': b.get(m_, 'len', nptr), 'expected': stop}, cl)
    elif op == 'fill':
        if r['cause'] != 'Looping':
            return Violation('c09:hex.fill_bytes:termination', {'cause': r['cause']}, cl)
        got = [get_byte(buf, i) for i in range(count + 2)]
        if got != [case['fill']] * count + [0, 0]:
            return Violation('c09:hex.fill_bytes:content', {'got': got, 'count': count, 'fill': case['fill']}, cl)
        if b.get(m_, 'len', nptr) != count or b.get(m_, 'val', 2) != case['fill'] or b.get(m_, 'p', nptr) != buf:
            return Violation('c09:hex.fill_bytes:arguments-not-preserved', {}, cl)
    else:
        if r['cause'] != 'Looping':
            return Violation('c09:hex.copy_bytes:termination', {'cause': r['cause']}, cl)
        got = [get_byte(buf2, i) for i in range(count + 2)]
        if got != data[:count] + [0, 0]:
            return Violation('c09:hex.copy_bytes:content', {'got': got, 'expected': data[:count]}, cl)
        if [get_byte(buf, i) for i in range(len(data[:cap - 2]))] != data[:cap - 2] or b.get(m_, 'len', nptr) != count:
            return Violation('c09:hex.copy_bytes:source-or-count-changed', {}, cl)
    for g in ('guardb', 'guardc', 'guardd'):
        if b.get(m_, g, 2) != 0:
            return Violation('c09:buffers:write-outside-the-buffer', {'guard': g, 'op': op}, cl)
    return Ok(cl, len(data) >= 2)


def run_case(case):
    k = case.get('kind')
    if k == 'sweep':
        return run_sweep(case, case.get('tier', 'quick'))
    if k == 'drawn-decimal':
        return run_drawn_decimal(case)
    return run_buffer(case)
