"""C01 - every engine executes the FlipJump machine semantics exactly."""
from fjverif import machine, imagegen, engines
from fjverif.runner import Ok, Violation, Discard

ID = 'C01'
LEVEL = 'exploration'
RULE = ('cases = repository programs assembled at w=32/64 (thousands of ops, real stl code) and execution-guided images (imagegen: words drawn when the simulated run first reads them; layouts '
        'compact/few/lazytail/pageedge/window/high/top/magic; w in 8/16/32/64; fjm version 0-3) plus dense random '
        'w=8 images; each is run on featured, fast and native engines through fjm_run.run with a recording device '
        'and compared with the reference machine (cause, op count, fault address, exact IO call sequence). '
        'non-trivial = reference executes >= 8 ops and shows at least one of: unaligned ip, self-modification of '
        'own/next op, input op, a memory fault, self-jump with self-flip, or the case is a page walk (ops on 20-90 distinct '
        '16K-word pages, each page entered twice); distinct = sha256 of the case JSON')
ASSUMPTIONS = ['reference machine fjverif/machine.py is the machine definition (written from the property statement)',
               'images are written with the real Writer and loaded by the real Reader (their fidelity is C06)',
               'reference step budget 20000 ops; longer runs are discarded and counted']


def families(tier):
    q = tier == 'quick'
    return [
        {'name': 'guided', 'strategy': lambda: imagegen.images(), 'examples': 1500 if q else 30000},
        {'name': 'dense8', 'strategy': lambda: imagegen.dense_w8(), 'examples': 1200 if q else 60000},
        {'name': 'assembled-programs', 'strategy': lambda: c07_programs(), 'examples': 8 if q else 300},
        # runs of about 2^18 / 2^19 ops: the native loops poll signals and refresh their bookkeeping every 2^18 ops
        {'name': 'long-rings', 'strategy': lambda: imagegen.long_rings(), 'examples': 2 if q else 60},
        # op chains spread over 20-90 distinct 16K-word pages and walked twice: the native page table grows and its page
        # cache evicts; a page lost on the way holds the ops of the second round
        {'name': 'page-walks', 'strategy': lambda: c07_page_walks(), 'examples': 10 if q else 300},
    ]


def c07_programs():
    from fjverif.props import c07
    return c07.program_cases()


def c07_page_walks():
    from fjverif.props import c07
    return c07.page_walks()


def pack_bytes(bits):
    n = len(bits) // 8
    return bytes(sum(bits[8 * i + j] << j for j in range(8)) for i in range(n))


def classify(case, ref):
    cl = ['w=%d' % case['w'], 'layout=' + case['layout'], 'cause=' + ref.cause]
    if ref.ops >= (1 << 18) - 2:
        cl.append('op count within 2 of a multiple of 2^18' if min(ref.ops % (1 << 18), (1 << 18) - ref.ops % (1 << 18)) <= 2 else 'more than 2^18 ops')
    cl += sorted(ref.flags)
    if ref.n_in:
        cl.append('reads input')
    if ref.out:
        cl.append('writes output')
    if len(case['segments']) > 1 and any(not (case['segments'][0][0] <= wa < case['segments'][0][0] + case['segments'][0][1])
                                        for wa in ref.touched):
        cl.append('touches non-first segment')
    for s, l, d in case['segments']:
        if any(s + len(d) <= wa < s + l for wa in ref.touched):
            cl.append('touches zero tail' + (' (lazy)' if l - len(d) >= 1000 else ' (dense)'))
            break
    if ref.ops >= 8:
        cl.append('ops>=8')
    if ref.ops >= 50:
        cl.append('ops>=50')
    return cl


NONTRIVIAL_FLAGS = {'unaligned', 'flips own flip word', 'flips own jump word', 'flips next op', 'input@unaligned-ip',
                    'self-jump with self-flip', 'out+in same op', 'fault:flipword', 'fault:inputword',
                    'fault:fliptarget', 'fault:jumpword'}


def compare(case, ref, o, engine):
    """-> None or (what, detail)"""
    w = case['w']
    if o.exc is not None:
        return 'exception:' + type(o.exc).__name__, {'exc': repr(o.exc)}
    exp_calls = ref.calls
    got = (o.cause, o.ops, o.fault, o.dev.calls)
    exp = (ref.cause, ref.ops, ref.fault, exp_calls)
    if got == exp:
        return None
    if got[0] != exp[0]:
        what = 'cause'
    elif got[3] != exp[3]:
        what = 'io-calls'
    elif got[1] != exp[1]:
        what = 'op-count'
    else:
        what = 'fault-address'
        if engine == 'native' and w == 64 and exp[2] is not None and exp[2] >= (1 << 64) and got[2] == exp[2] % (1 << 64):
            what = 'fault-address-wraps-2^64'
    return what, {'expected': {'cause': exp[0], 'ops': exp[1], 'fault': exp[2], 'calls': exp[3][:50]},
                  'got': {'cause': got[0], 'ops': got[1], 'fault': got[2], 'calls': got[3][:50]}}


def run_case(case):
    w = case['w']
    if case.get('kind') == 'program':
        from fjverif.props import c07
        try:
            path, segs = c07.program_image(case)
        except Exception as e:  # noqa
            return Discard('program does not assemble here: %s' % type(e).__name__)
        case = dict(case, segments=segs, layout='program', input_bits=[(b >> i) & 1 for b in case['input'] for i in range(8)])
        ref = machine.run(w, segs, case['input_bits'], budget=60000)
    else:
        segs = case['segments']
        ref = machine.run(w, segs, case['input_bits'], **({'budget': 1 << 21} if case.get('kind') == 'longring' else {}))
        path = engines.tmpdir() / 'c01.fjm'
        engines.write_image(path, w, segs, case['version'])
    if ref.cause == machine.BUDGET:
        return Discard('reference budget')
    cl = classify(case, ref)
    for eng in engines.ENGINES:
        dev = engines.make_rec_device(case['input_bits'])
        o = engines.run_engine(path, eng, dev)
        diff = compare(case, ref, o, eng)
        if diff is not None:
            return Violation('c01:%s:%s' % (eng, diff[0]), {'engine': eng, **diff[1]}, cl)
    # the same engines with a last-ops list requested (the CLI / quickstart default is 10): the native engine then runs
    # its ring loop instead of the plain flat loop, the python loops keep a deque
    ring_len = (1, 3, 10, 64)[(ref.ops + len(case['input_bits'])) % 4]
    for eng in ('native', ('fast', 'featured')[ref.ops % 2]):
        dev = engines.make_rec_device(case['input_bits'])
        o = engines.run_engine(path, eng, dev, last_len=ring_len)
        diff = compare(case, ref, o, eng)
        if diff is not None:
            return Violation('c01:%s+last-ops:%s' % (eng, diff[0]), {'engine': eng, 'last_ops_length': ring_len, **diff[1]}, cl)
    cl.append('last-ops list of %d requested' % ring_len)
    # the native engine's other storage path: everything page-backed (no flat window)
    dev = engines.make_rec_device(case['input_bits'])
    o = engines.run_engine(path, 'native', dev, knobs={'no_flat': True}, last_len=ring_len if ref.ops % 3 == 0 else None)
    diff = compare(case, ref, o, 'native')
    if diff is not None:
        return Violation('c01:native+paged:%s' % diff[0], {'engine': 'native', 'storage': o.storage, **diff[1]}, cl)
    # whole-byte input through the library's FixedIO on one engine
    if len(case['input_bits']) % 8 == 0:
        from flipjump.interpreter.io_devices.FixedIO import FixedIO
        eng = engines.ENGINES[(len(case['input_bits']) // 8 + ref.ops) % 3]
        dev = FixedIO(pack_bytes(case['input_bits']))
        o = engines.run_engine(path, eng, dev)
        if o.exc is not None:
            return Violation('c01:%s:fixedio-exception' % eng, {'exc': repr(o.exc)}, cl)
        out = dev.get_output(allow_incomplete_output=True)
        if (o.cause, o.ops, o.fault, out) != (ref.cause, ref.ops, ref.fault, pack_bytes(ref.out)):
            what = 'fixedio'
            if eng == 'native' and w == 64 and ref.fault is not None and ref.fault >= (1 << 64) \
                    and (o.cause, o.ops, out) == (ref.cause, ref.ops, pack_bytes(ref.out)) and o.fault == ref.fault % (1 << 64):
                what = 'fault-address-wraps-2^64'
            return Violation('c01:%s:%s' % (eng, what),
                             {'engine': eng, 'got': [o.cause, o.ops, o.fault, out.hex()],
                              'expected': [ref.cause, ref.ops, ref.fault, pack_bytes(ref.out).hex()]}, cl)
        cl.append('fixedio run')
    nt = ref.ops >= 8 and bool(NONTRIVIAL_FLAGS & ref.flags or ref.n_in or case.get('kind') == 'pagewalk')
    return Ok(cl, nt)
