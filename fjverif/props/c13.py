"""C13 - assembly output is a pure function of its inputs."""
import hashlib
import json
import os
import subprocess
import sys

from hypothesis import strategies as st

from fjverif import env, macrogen, asm_worker
from fjverif.imagegen import D
from fjverif.props import c03
from fjverif.runner import Ok, Violation, Discard, canon

ID = 'C13'
LEVEL = 'exploration'
RULE = ('histories of 5-12 assemble calls in ONE process (stateful, model-based: the model of every call is the same request '
        'executed in a FRESH interpreter process, memoised).  Requests mix stl programs (hello world, hex/bit math, rep, '
        'namespaces, programs that define constants / labels named like identifiers of other programs), generated macro '
        'programs without stl, and failing inputs of every stage (lexing, syntax inside ns/def, unknown macro, duplicate '
        'label, recursion limit with a tiny depth, expression error, warning-as-error) x w in {16 (no stl), 32, 64} x werror x '
        'fjm version x max_recursion_depth x file split x output directory name/depth.  After EVERY call the produced .fjm '
        'and .fjd bytes (or the exception class) must equal the fresh-process result.  non-trivial = a call that is preceded '
        'by >= 1 failed assembly and by stl parses with >= 2 distinct (w, werror) keys and that re-uses an stl cache key')
ASSUMPTIONS = ['the fresh-process result is the specification of a request (cold caches, nothing assembled before)',
               'exception messages are not compared (they contain absolute paths); the exception class is']

STL_PROGRAMS = {
    'hello': 'stl.startup\nstl.output "Hello"\nstl.loop\n',
    'hexadd': 'stl.startup_and_init_all\nhex.add 4, a, b\nhex.print_uint 4, a, 1, 0\nstl.loop\na: hex.vec 4, 0x1234\nb: hex.vec 4, 0x0F0F\n',
    # the same library macros with the hex tables (hex.init) at another address in each program: the library's expressions over
    # global labels must be evaluated for THIS program
    'hex-late-init-3': 'stl.startup\nhex.add 4, a, b\nhex.sub 4, a, c\nhex.print_uint 4, a, 1, 0\nstl.loop\na: hex.vec 4, 0x1234\nb: hex.vec 4, 0x0F0F\nc: hex.vec 4, 0x0101\ndef filler {\n;\n}\nrep(3, i) filler\nhex.init\n',
    'hex-late-init-40': 'stl.startup\nhex.add 4, a, b\nhex.sub 4, a, c\nhex.print_uint 4, a, 1, 0\nstl.loop\na: hex.vec 4, 0x1234\nb: hex.vec 4, 0x0F0F\nc: hex.vec 4, 0x0101\ndef filler {\n;\n}\nrep(40, i) filler\nhex.init\n',
    'bitrep': 'stl.startup\nrep(7, i) bit.exact_not x+i+i\nstl.loop\nx:\nbit.bit 0\n',
    'consts-n': 'n = 5\nd = 3\nstl.startup\nrep(n, i) stl.output_char \'a\' + i + d\nstl.loop\n',
    'labels-n': 'stl.startup\n;n\nn: ;d\nd: stl.loop\n',
    'consts-x': 'x = 7\ncount = 2\nstl.startup\nstl.output_char \'0\' + x + count\nstl.loop\n',
    'labels-x': 'stl.startup\n;x\nx: ;count\ncount:\nstl.loop\n',
    'ns-macro': 'ns mine {\n  def twice c {\n    stl.output_char c\n    stl.output_char c\n  }\n}\nstl.startup\nmine.twice \'z\'\nstl.loop\n',
    'unused-label-warning': 'def warn_me unused_param {\n;\n}\nstl.startup\nwarn_me 3\nstl.loop\n',
}
def _nest(k):
    # k nested macro calls: assembles iff the macro-expansion depth limit (and nothing left over from earlier calls) allows k
    return ''.join('def n%d {\n%s\n}\n' % (i, ('n%d' % (i + 1)) if i + 1 < k else ';') for i in range(k)) + 'n0\nl: ;l\n'


def _deep_frames(k, terms):
    # legal macro depth k (< 900) whose innermost op holds a long left-nested expression over a parameter: the assembly needs
    # more python frames than the interpreter's limit allows in a fresh process (limit = max_recursion_depth + gap), so the
    # outcome flips if an earlier call left another recursion limit behind
    body = ''.join('def d%d x {\n%s\n}\n' % (i, ('d%d x' % (i + 1)) if i + 1 < k else (';x' + ' + 0' * terms)) for i in range(k))
    return body + 'd0 1\nl: ;l\n'


NOSTL_PROGRAMS = {
    'frames-near-python-limit': _deep_frames(850, 300),
    'nest11': _nest(11),
    'nest12': _nest(12),
    'nest13': _nest(13),
    'tiny': ';\nl: ;l\n',
    'consts-n-nostl': 'n = 5\n;n\nq: ;q\n',
    'labels-n-nostl': ';n\nn: ;n\n',
}
FAILING = {
    'lex-error': 'stl.startup\n`\nstl.loop\n',
    'syntax-in-ns': 'ns broken {\n  def m a, {\n ;\n }\n}\nstl.startup\nstl.loop\n',
    'unknown-macro': 'stl.startup\nno.such.macro 1, 2\nstl.loop\n',
    'duplicate-label': 'stl.startup\nl:\nl:\nstl.loop\n',
    'expression-error': 'stl.startup\nbad = 1/0\nstl.loop\n',
    'recursion': 'def r {\n r\n}\nstl.startup\nr\n',
    'recursion-mutual': 'def r {\n q\n}\ndef q {\n rep(1, i) r\n}\nstl.startup\nr\n',
    'const-then-error': 'n = 9\nx = 1\nd = 2\nstl.startup\nno.such.macro\n',
}


@st.composite
def histories(draw):
    d = D(draw)
    steps = []
    gen_prog = None
    for _ in range(d.int(5, 12)):
        r = d.pct()
        use_stl = True
        if r < 45:
            name = d.choice(sorted(STL_PROGRAMS))
            texts = [STL_PROGRAMS[name]]
        elif r < 70:
            name = d.choice(sorted(FAILING))
            texts = [FAILING[name]]
        elif r < 82:
            name = d.choice(sorted(NOSTL_PROGRAMS))
            texts = [NOSTL_PROGRAMS[name]]
            use_stl = False
        else:
            if gen_prog is None:
                gen_prog = draw(c03.macro_programs())
            name = 'generated'
            src, _ = macrogen.render(gen_prog['items'], gen_prog['spell_seed'], gen_prog['style'])
            texts = [src]
            use_stl = False
        if len(texts) == 1 and d.pct() < 20 and texts[0].count('\n') > 3 and name in ('hello', 'consts-n', 'labels-x', 'tiny'):
            lines = texts[0].split('\n')
            cut = d.int(1, len(lines) - 2)
            texts = ['\n'.join(lines[:cut]) + '\n', '\n'.join(lines[cut:])]
        w = d.choice([32, 64, 64]) if use_stl else (gen_prog['w'] if name == 'generated' else d.choice([16, 32, 64]))
        if steps and d.pct() < 15:
            # the same sources at the same path again, with other options (a user re-running with --werror, another width...)
            prev = d.choice(steps)
            steps.append(dict(prev, werror=not prev['werror'] if d.pct() < 70 else prev['werror'],
                              version=d.int(0, 3), w=prev['w'] if d.pct() < 70 or not prev['use_stl'] else d.choice([32, 64])))
            continue
        steps.append({'name': name, 'texts': texts, 'w': w, 'werror': d.pct() < 35, 'version': d.int(0, 3),
                      'depth': d.choice([None, None, 900, 50, 12, 3000]), 'use_stl': use_stl,
                      'dir_tag': d.choice(['x', 'y', 'deep/er/dir', 'a b', 'x']), 'debug': True,
                      # the stl files' short names as the lower-level assembler.assemble lets a caller choose them
                      'short_prefix': d.choice([None, None, None, 'lib']) if use_stl else None,
                      'via_stl_list': use_stl and d.pct() < 12})
    return {'steps': steps}


def families(tier):
    q = tier == 'quick'
    return [{'name': 'assemble-histories', 'strategy': histories, 'examples': 12 if q else 300}]


_memo = {}


def fresh(req):
    """result of the request in a fresh interpreter process (memoised in-process and on disk inside the snapshot)"""
    key = hashlib.sha256(canon({k: req.get(k) for k in ('texts', 'w', 'werror', 'version', 'depth', 'use_stl', 'debug', 'short_prefix', 'via_stl_list')}).encode()).hexdigest()[:24]
    if key in _memo:
        return _memo[key]
    snap = os.environ[env.ENV_SNAPSHOT]
    cdir = os.path.join(snap, 'c13cache')
    os.makedirs(cdir, exist_ok=True)
    cpath = os.path.join(cdir, key + '.json')
    if os.path.exists(cpath):
        try:
            with open(cpath) as f:
                _memo[key] = json.load(f)
                return _memo[key]
        except Exception:
            pass
    r = subprocess.run([sys.executable, '-m', 'fjverif.asm_worker'], input=json.dumps(dict(req, dir_tag='fresh')).encode(),
                       capture_output=True, env=env.child_env(snap), cwd=os.path.dirname(os.path.dirname(os.path.dirname(os.path.abspath(__file__)))),
                       timeout=300)
    if r.returncode != 0:
        raise env.HarnessError('fresh-process worker failed: %s' % r.stderr.decode()[-1500:])
    res = json.loads(r.stdout.decode())
    tmp = cpath + '.%d.tmp' % os.getpid()
    with open(tmp, 'w') as f:
        json.dump(res, f)
    os.replace(tmp, cpath)
    _memo[key] = res
    return res


def run_case(case):
    cl = []
    failed_before = 0
    stl_keys = []
    nontrivial = False
    import shutil
    import tempfile
    hist_base = tempfile.mkdtemp(prefix='c13hist.', dir=os.environ.get(env.ENV_SNAPSHOT))
    try:
        return _run_history(case, hist_base)
    finally:
        shutil.rmtree(hist_base, ignore_errors=True)


def _in_fresh_thread(fn, *a, **k):
    """the library sets an ABSOLUTE python recursion limit (max_recursion_depth + gap), so what a deep macro nest does
    depends on how deep the caller's own stack is.  The fresh-process oracle calls assemble from a nearly empty stack;
    the in-process history does the same by running every step on a new thread (frame depth is counted per thread)
    instead of below Hypothesis' and the runner's ~80 frames."""
    import threading
    box = {}

    def run():
        try:
            box['r'] = fn(*a, **k)
        except BaseException as e:  # noqa
            box['e'] = e
    t = threading.Thread(target=run)
    t.start()
    t.join()
    if 'e' in box:
        raise box['e']
    return box['r']


def _run_history(case, hist_base):
    cl = []
    failed_before = 0
    stl_keys = []
    nontrivial = False
    for i, step in enumerate(case['steps']):
        # all steps of a history that name the same dir_tag assemble the SAME paths (sources rewritten in place)
        got = _in_fresh_thread(asm_worker.do_request, step, fixed_base=hist_base)
        want = fresh(step)
        cl.append('step:' + step['name'])
        key = (step['w'], step['werror']) if step['use_stl'] else None
        reuse = key is not None and key in stl_keys
        if (got['status'], got['exc'], got['fjm'], got['fjd']) != (want['status'], want['exc'], want['fjm'], want['fjd']):
            what = 'status' if (got['status'], got['exc']) != (want['status'], want['exc']) else 'fjm-bytes' if got['fjm'] != want['fjm'] else 'fjd-bytes'
            return Violation('c13:history-dependent:' + what,
                             {'step': i, 'request': {k: step[k] for k in ('name', 'w', 'werror', 'version', 'depth', 'use_stl', 'dir_tag')},
                              'got': [got['status'], got['exc'], got.get('msg'), len(got['fjm'] or '') // 2],
                              'fresh': [want['status'], want['exc'], want.get('msg'), len(want['fjm'] or '') // 2],
                              'history': [[s['name'], s['w'], s['werror'], s['use_stl']] for s in case['steps'][:i]]}, cl)
        if got['status'] == 'raw-exception':
            cl.append('raw exception (C14 business)')
        if reuse and failed_before >= 1 and len(set(stl_keys)) >= 2:
            nontrivial = True
            cl.append('warm-cache probe after failures')
        if got['status'] != 'ok':
            failed_before += 1
            cl.append('failed step')
        if key is not None:
            stl_keys.append(key)
    return Ok(sorted(set(cl)), nontrivial, sample={'steps': [[s['name'], s['w'], s['werror'], s['version'], s['depth'], s['dir_tag']] for s in case['steps']]})
