"""C16 - the debug label table is exact."""
import os
import re

from hypothesis import strategies as st

from fjverif import engines, asmref, macrogen
from fjverif.imagegen import D
from fjverif.props import c03
from fjverif.runner import Ok, Violation, Discard

ID = 'C16'
LEVEL = 'exploration'
RULE = ('(tables) macro programs from the C03 generator (multi-file, reps, namespaces, label parameters) assembled with a '
        'debugging file: every source label - global labels by their full dotted name, macro-local labels by their expansion '
        'path short_file:line:[repI:]macro---...---local - must be present with the address given by the independent layout '
        'model of the reference-inlined program; names of different (expansion path, label) pairs differ; the only other '
        'entries are the internal kinds (:wflips:N, _.wflip_area_start_N, ...---:start:).  Breakpoint requests (exact names '
        'present/absent, substrings of one / many / no label, the empty string, raw addresses) must resolve to exactly the '
        'matching addresses.  (library paths) programs calling stl macros, assembled after 0-2 other assemblies in the same process that gave the '
        'library files other short names (s1.., f1.. via get_stl_paths(), names chosen via assembler.assemble): every path '
        'element short:line:macro of every table entry must name a file of THIS assembly whose line calls that macro.  '
        '(same name) programs in which one label statement is reached by two expansions under the same resolved name '
        '(through a label parameter, a rep, a macro-local name passed down) must be refused - never trivial-counted.  '
        '(round trip) arbitrary {str: int} dictionaries survive save/load unchanged.  non-trivial = '
        '>= 2 expansions of a macro that has an @ label, or a rep with n >= 2, or one spelling in two namespaces')
ASSUMPTIONS = ['expected addresses come from fjverif/asmref.layout of the inlined program (independent of the assembler)',
               'the path element may be written "f1:l3:" (as this tree does) or "f1:3:" (as flipjump/README.md shows); both are accepted']


@st.composite
def table_cases(draw):
    case = draw(c03.macro_programs())
    d = D(draw)
    case['kind'] = 'table'
    case['bp_seed'] = d.int(0, 10 ** 6)
    return case


@st.composite
def roundtrip_cases(draw):
    keys = st.text(min_size=0, max_size=30)
    dct = draw(st.dictionaries(keys, st.integers(min_value=-(1 << 70), max_value=1 << 70), max_size=12))
    return {'kind': 'roundtrip', 'dict': sorted(dct.items())}


STL_CALLS = ['bit.if0 x, l', 'bit.not x', 'bit.if x, l, l2', 'hex.inc 2, h', 'hex.if0 2, h, l', 'bit.print x', 'stl.output_char 65',
             'hex.add 2, h, h2', 'bit.inc 3, v', 'hex.print_as_digit h, 0', 'stl.fcall f, r', 'um', 'rep(2, i) bit.xor x, y']
STL_TAIL = ('l:\nl2:\nstl.loop\nf: stl.fret r\nr: bit.bit 0\nx: bit.bit 0\ny: bit.bit 1\nv: bit.vec 3, 5\nh: hex.vec 2, 7\nh2: hex.vec 2, 9\nhex.init\n'
            'def um @ here, here2 {\n  bit.not x\n  here:\n  bit.if1 x, here2\n  here2:\n}\n')
ROUTES = ['default', 'via_stl_list', 'short_prefix:q', 'short_prefix:lib', 'short_prefix:s']


@st.composite
def stl_path_cases(draw):
    """a program that calls library macros, assembled with a debugging file after 0-2 other assemblies in the same process
    that gave the library files other short names (default s1.., the caller's own list f1.., names chosen through
    assembler.assemble)"""
    d = D(draw)
    w = d.choice([64, 32, 64])

    def prog():
        calls = [d.choice(STL_CALLS) for _ in range(d.int(1, 5))]
        return 'stl.startup\n' + '\n'.join(calls) + '\n' + STL_TAIL
    steps = []
    for _ in range(d.choice([1, 1, 2, 0])):
        steps.append({'route': d.choice(ROUTES), 'w': w if d.pct() < 85 else d.choice([32, 64]), 'text': prog(), 'werror': False})
    steps.append({'route': d.choice(ROUTES), 'w': w, 'text': prog(), 'werror': False})
    return {'kind': 'stl-paths', 'steps': steps}


SAME_NAME = [
    'def mark l {\n  l:\n  5;\n}\n;\nmark here\nmark here\n',
    'def mark l {\n  l:\n  5;\n}\n;\nrep(2, i) mark here\n',
    'def mark l {\n  l:\n  5;\n}\ndef outer @ x {\n  mark x\n  mark x\n}\n;\nouter\n',
    'def mark l {\n  l:\n  5;\n}\ndef outer @ x {\n  rep(3, i) mark x\n}\n;\nouter\nouter\n',
    'ns a {\n  def mark l {\n    l:\n    ;\n  }\n}\n;\na.mark t\n;\na.mark t\n',
    'def mark l {\n  l:\n  ;\n}\n;\nhere:\nmark here\n',
    'def mark2 l {\n  mark l\n}\ndef mark l {\n  l:\n  ;\n}\n;\nmark2 q\nmark q\n',
]


@st.composite
def same_name_cases(draw):
    d = D(draw)
    return {'kind': 'same-name', 'w': d.choice([16, 32, 64]), 'prog': d.int(0, len(SAME_NAME) - 1), 'pre_ops': d.int(0, 3)}


def run_same_name(case):
    """one label statement reached by two expansions under the same resolved name: the table could name only one of the two
    addresses, so the assembler has to refuse the program"""
    src = ';\n' * case['pre_ops'] + SAME_NAME[case['prog']]
    res = c03.assemble_files([src], case['w'], 'c16same', debug=True)
    cl = ['family=same-name', 'w=%d' % case['w']]
    if res[0] == 'timeout':
        return Discard('inconclusive: assembler wall guard')
    if res[0] == 'ok':
        return Violation('c16:same-name-declared-by-two-expansions-accepted', {'src': src, 'table': sorted(res[2].items())[:8]}, cl)
    if res[0] == 'raw':
        return Violation('c16:same-name:raw-exception', {'src': src, 'exc': repr(res[1])[:200]}, cl)
    return Ok(cl, False)


def families(tier):
    q = tier == 'quick'
    return [{'name': 'same-name-twice', 'strategy': same_name_cases, 'examples': 8 if q else 100},
            {'name': 'label-tables', 'strategy': table_cases, 'examples': 350 if q else 25000},
            {'name': 'library-expansion-paths', 'strategy': stl_path_cases, 'examples': 12 if q else 600},
            {'name': 'save-load-roundtrip', 'strategy': roundtrip_cases, 'examples': 200 if q else 10000}]


COMP = re.compile(r'^([A-Za-z_]+\d+):l?(\d+):((?:rep\d+:)?)(.+)$')


def run_stl_paths(case):
    import flipjump
    from fjverif import asm_worker
    from flipjump.utils.functions import load_debugging_labels
    cl = ['family=stl-paths']
    tmp = engines.tmpdir()
    res = None
    for st_ in case['steps']:
        req = {'texts': [st_['text']], 'w': st_['w'], 'werror': st_['werror'], 'version': 0, 'depth': None, 'use_stl': True,
               'dir_tag': 'c16stl', 'debug': True}
        if st_['route'] == 'via_stl_list':
            req['via_stl_list'] = True
        elif st_['route'].startswith('short_prefix:'):
            req['short_prefix'] = st_['route'].split(':')[1]
        res = asm_worker.do_request(req, base_dir=str(tmp))
    last = case['steps'][-1]
    if res['status'] != 'ok':
        if res['status'] == 'fj-exception':
            return Discard('program rejected: %s' % (res.get('msg') or '')[:80])
        return Violation('c16:stl-paths:raw-exception', {'exc': res.get('exc'), 'msg': res.get('msg'), 'steps': case['steps']}, cl)
    p = tmp / 'c16stl.fjd'
    p.write_bytes(bytes.fromhex(res['fjd']))
    table = load_debugging_labels(p)
    # the files of THIS assembly by short name (names computed here; the library file list is the public get_stl_paths())
    stl = [str(x) for x in flipjump.get_stl_paths()]
    route = last['route']
    files = {}
    if route == 'via_stl_list':
        for i, f in enumerate(stl):
            files['f%d' % (i + 1)] = open(f, encoding='utf-8').read().split('\n')
        files['f%d' % (len(stl) + 1)] = last['text'].split('\n')
    else:
        pre = 's' if route == 'default' else route.split(':')[1]
        for i, f in enumerate(stl):
            files['%s%d' % (pre, i + 1)] = open(f, encoding='utf-8').read().split('\n')
        if pre == 'f':
            return Discard('the chosen library names collide with the user file name')
        files['f1'] = last['text'].split('\n')
    n_comp = 0
    for name in sorted(table):
        comps = name.split('---')[:-1]
        for c in comps:
            m = COMP.match(c)
            if not m:
                return Violation('c16:stl-paths:path-element-format', {'label': name, 'element': c}, cl)
            short, line, _, macro = m.group(1), int(m.group(2)), m.group(3), m.group(4)
            if short not in files:
                return Violation('c16:stl-paths:file-name-not-of-this-assembly', {'label': name, 'element': c, 'route': route,
                                                                                    'steps': [(x['route'], x['w']) for x in case['steps']]}, cl)
            base = macro.split('(')[0].split('.')[-1]
            lines = files[short]
            if not (1 <= line <= len(lines)) or not re.search(r'(?<![A-Za-z0-9_])' + re.escape(base) + r'(?![A-Za-z0-9_])', lines[line - 1]):
                return Violation('c16:stl-paths:line-does-not-call-the-macro', {'label': name, 'element': c, 'route': route,
                                 'line_text': lines[line - 1][:120] if 1 <= line <= len(lines) else None,
                                 'steps': [(x['route'], x['w']) for x in case['steps']]}, cl)
            n_comp += 1
    cl.append('route=' + route)
    hist = [x['route'] for x in case['steps'][:-1]]
    other = any(h != route for h in hist)
    if other:
        cl.append('earlier assembly gave the library files other names')
    return Ok(sorted(set(cl)), other and n_comp >= 5)



def run_roundtrip(case):
    from flipjump.utils.functions import save_debugging_labels, load_debugging_labels
    d = dict((k, v) for k, v in case['dict'])
    p = engines.tmpdir() / 'c16rt.fjd'
    save_debugging_labels(p, d)
    got = load_debugging_labels(p)
    if got != d:
        return Violation('c16:save-load-roundtrip', {'dict': case['dict'][:6], 'got': sorted(got.items())[:6]}, ['family=roundtrip'])
    return Ok(['family=roundtrip'], len(d) >= 2)


INTERNAL = re.compile(r'^(:wflips:\d+|_\.wflip_area_start_\d+|.*---:start:|:start:)$')


def run_table(case):
    from flipjump.interpreter.debugging.breakpoints import get_breakpoint_handler
    w = case['w']
    items = case['items']
    cl = ['family=table', 'w=%d' % w]
    parts = c03.split_top_level(items, case.get('splits') or [])
    texts = []
    pos_map = {}
    for k, p in enumerate(parts):
        t, rend = macrogen.render(p, case['spell_seed'] + k, case['style'])
        texts.append(t)
        for key, line in rend.call_lines.items():
            if not isinstance(key, tuple):
                pos_map[key] = ('f%d' % (k + 1), line)
    try:
        inl = macrogen.Inliner(items, w)
        inl.expand(items, [], {}, '', 0, lambda it: pos_map[id(it)])
    except (macrogen.InlineError, KeyError, c03.exprref_error()):
        return Discard('generator produced an invalid program')
    res = c03.assemble_files(texts, w, 'c16', debug=True)
    if res[0] == 'timeout':
        return Discard('inconclusive: assembler wall guard')
    if res[0] != 'ok':
        return Discard('program rejected (C03 decides whether rightly)')
    table = res[2]
    L = asmref.layout(w, inl.out)
    if L.verdict == 'impossible':
        return Discard('model says impossible')
    # expected names
    expected = {}
    for name, plain in inl.debug_names:
        addr = L.labels.get(plain)
        if addr is None:
            return Discard('label not in model')
        alts = [name, re.sub(r'(^|---)([a-z]\d+):l(\d+):', r'\1\2:\3:', name)]
        key = alts[0]
        if key in expected:
            return Violation('c16:model-names-collide', {'name': key}, cl)
        expected[key] = (addr, alts)
    used = set()
    for key, (addr, alts) in expected.items():
        present = [a for a in alts if a in table]
        if not present:
            near = [k for k in table if k.endswith('---' + key.split('---')[-1])][:4]
            return Violation('c16:label-missing-from-table', {'expected_name': key, 'address': addr, 'similar_entries': near, 'files': [t[:500] for t in texts]}, cl)
        if table[present[0]] != addr:
            return Violation('c16:label-address-wrong', {'name': present[0], 'expected': addr, 'got': table[present[0]], 'files': [t[:500] for t in texts]}, cl)
        used.add(present[0])
    for k in table:
        if k not in used and not INTERNAL.match(k):
            return Violation('c16:unexpected-table-entry', {'name': k, 'address': table[k], 'files': [t[:400] for t in texts]}, cl)
    # the image side: a label's address holds the statement that follows it (ties the table to the image)
    # (already implied by the layout model + C02/C03; here only the table is under test)
    # ---- breakpoints
    rnd = case['bp_seed']
    names = sorted(table)
    exact = set()
    contains = set()
    addrs = set()
    if names:
        exact.add(names[rnd % len(names)])
        exact.add('no_such_label_%d' % (rnd % 7))
        n2 = names[(rnd // 7) % len(names)]
        if len(n2) >= 2:
            a = (rnd // 49) % (len(n2) - 1)
            contains.add(n2[a:a + 1 + (rnd // 343) % 4])
        if rnd % 3 == 0:
            contains.add('---')
        if rnd % 5 == 0:
            contains.add('zzzz_not_there')
        if rnd % 11 == 0:
            contains.add('')
        addrs.add(table[names[(rnd // 13) % len(names)]])
        addrs.add((rnd % 1000) * w)
    dbg = engines.tmpdir() / 'c16.fjd'
    import contextlib
    import io
    with contextlib.redirect_stdout(io.StringIO()):
        h = get_breakpoint_handler(dbg, set(addrs) or None, set(exact) or None, set(contains) or None)
    want = set(addrs)
    want |= {table[n] for n in exact if n in table}
    want |= {table[n] for n in table for c in contains if c in n}
    got = set(h.breakpoints)
    if got != want:
        return Violation('c16:breakpoint-resolution', {'exact': sorted(exact), 'contains': sorted(contains), 'addresses': sorted(addrs),
                                                      'missing': sorted(want - got)[:5], 'extra': sorted(got - want)[:5]}, cl)
    for a, lab in h.breakpoints.items():
        if lab is not None and table.get(lab) != a:
            return Violation('c16:breakpoint-label-name', {'address': a, 'label': lab}, cl)
    feats = []
    if any(v >= 2 for k, v in inl.n_expansions.items() if inl.defs[k][0][3]):
        feats.append('macro with @ label expanded >= 2 times')
    if any(re.search(r':rep1:', k) for k in expected):
        feats.append('rep with n >= 2')
    bases = {}
    for name, _ in inl.debug_names:
        if '---' not in name:
            bases.setdefault(name.split('.')[-1], set()).add(name)
    if any(len(v) >= 2 for v in bases.values()):
        feats.append('same spelling in two namespaces')
    if len(parts) > 1:
        feats.append('multi-file')
    cl += feats
    return Ok(sorted(set(cl)), bool(set(feats) - {'multi-file'}))


def run_case(case):
    if case.get('kind') == 'roundtrip':
        return run_roundtrip(case)
    if case.get('kind') == 'stl-paths':
        return run_stl_paths(case)
    if case.get('kind') == 'same-name':
        return run_same_name(case)
    return run_table(case)
