"""C16 - the debug label table is exact."""
import os
import re

from hypothesis import strategies as st

from fjverif import engines, asmref, macrogen
from fjverif.imagegen import D
from fjverif.props import c03
from fjverif.runner import Ok, Violation, Discard

ID = 'C16'
LEVEL = 'exploration'
RULE = ('(tables) macro programs from the C03 generator (multi-file, reps, namespaces, label parameters) assembled with a '
        'debugging file: every source label - global labels by their full dotted name, macro-local labels by their expansion '
        'path short_file:line:[repI:]macro---...---local - must be present with the address given by the independent layout '
        'model of the reference-inlined program; names of different (expansion path, label) pairs differ; the only other '
        'entries are the internal kinds (:wflips:N, _.wflip_area_start_N, ...---:start:).  Breakpoint requests (exact names '
        'present/absent, substrings of one / many / no label, the empty string, raw addresses) must resolve to exactly the '
        'matching addresses.  (round trip) arbitrary {str: int} dictionaries survive save/load unchanged.  non-trivial = '
        '>= 2 expansions of a macro that has an @ label, or a rep with n >= 2, or one spelling in two namespaces')
ASSUMPTIONS = ['expected addresses come from fjverif/asmref.layout of the inlined program (independent of the assembler)',
               'the path element may be written "f1:l3:" (as this tree does) or "f1:3:" (as flipjump/README.md shows); both are accepted']


@st.composite
def table_cases(draw):
    case = draw(c03.macro_programs())
    d = D(draw)
    case['kind'] = 'table'
    case['bp_seed'] = d.int(0, 10 ** 6)
    return case


@st.composite
def roundtrip_cases(draw):
    keys = st.text(min_size=0, max_size=30)
    dct = draw(st.dictionaries(keys, st.integers(min_value=-(1 << 70), max_value=1 << 70), max_size=12))
    return {'kind': 'roundtrip', 'dict': sorted(dct.items())}


def families(tier):
    q = tier == 'quick'
    return [{'name': 'label-tables', 'strategy': table_cases, 'examples': 350 if q else 25000},
            {'name': 'save-load-roundtrip', 'strategy': roundtrip_cases, 'examples': 200 if q else 10000}]


def run_roundtrip(case):
    from flipjump.utils.functions import save_debugging_labels, load_debugging_labels
    d = dict((k, v) for k, v in case['dict'])
    p = engines.tmpdir() / 'c16rt.fjd'
    save_debugging_labels(p, d)
    got = load_debugging_labels(p)
    if got != d:
        return Violation('c16:save-load-roundtrip', {'dict': case['dict'][:6], 'got': sorted(got.items())[:6]}, ['family=roundtrip'])
    return Ok(['family=roundtrip'], len(d) >= 2)


INTERNAL = re.compile(r'^(:wflips:\d+|_\.wflip_area_start_\d+|.*---:start:|:start:)$')


def run_table(case):
    from flipjump.interpreter.debugging.breakpoints import get_breakpoint_handler
    w = case['w']
    items = case['items']
    cl = ['family=table', 'w=%d' % w]
    parts = c03.split_top_level(items, case.get('splits') or [])
    texts = []
    pos_map = {}
    for k, p in enumerate(parts):
        t, rend = macrogen.render(p, case['spell_seed'] + k, case['style'])
        texts.append(t)
        for key, line in rend.call_lines.items():
            if not isinstance(key, tuple):
                pos_map[key] = ('f%d' % (k + 1), line)
    try:
        inl = macrogen.Inliner(items, w)
        inl.expand(items, [], {}, '', 0, lambda it: pos_map[id(it)])
    except (macrogen.InlineError, KeyError, c03.exprref_error()):
        return Discard('generator produced an invalid program')
    res = c03.assemble_files(texts, w, 'c16', debug=True)
    if res[0] == 'timeout':
        return Discard('inconclusive: assembler wall guard')
    if res[0] != 'ok':
        return Discard('program rejected (C03 decides whether rightly)')
    table = res[2]
    L = asmref.layout(w, inl.out)
    if L.verdict == 'impossible':
        return Discard('model says impossible')
    # expected names
    expected = {}
    for name, plain in inl.debug_names:
        addr = L.labels.get(plain)
        if addr is None:
            return Discard('label not in model')
        alts = [name, re.sub(r'(^|---)([a-z]\d+):l(\d+):', r'\1\2:\3:', name)]
        key = alts[0]
        if key in expected:
            return Violation('c16:model-names-collide', {'name': key}, cl)
        expected[key] = (addr, alts)
    used = set()
    for key, (addr, alts) in expected.items():
        present = [a for a in alts if a in table]
        if not present:
            near = [k for k in table if k.endswith('---' + key.split('---')[-1])][:4]
            return Violation('c16:label-missing-from-table', {'expected_name': key, 'address': addr, 'similar_entries': near, 'files': [t[:500] for t in texts]}, cl)
        if table[present[0]] != addr:
            return Violation('c16:label-address-wrong', {'name': present[0], 'expected': addr, 'got': table[present[0]], 'files': [t[:500] for t in texts]}, cl)
        used.add(present[0])
    for k in table:
        if k not in used and not INTERNAL.match(k):
            return Violation('c16:unexpected-table-entry', {'name': k, 'address': table[k], 'files': [t[:400] for t in texts]}, cl)
    # the image side: a label's address holds the statement that follows it (ties the table to the image)
    # (already implied by the layout model + C02/C03; here only the table is under test)
    # ---- breakpoints
    rnd = case['bp_seed']
    names = sorted(table)
    exact = set()
    contains = set()
    addrs = set()
    if names:
        exact.add(names[rnd % len(names)])
        exact.add('no_such_label_%d' % (rnd % 7))
        n2 = names[(rnd // 7) % len(names)]
        if len(n2) >= 2:
            a = (rnd // 49) % (len(n2) - 1)
            contains.add(n2[a:a + 1 + (rnd // 343) % 4])
        if rnd % 3 == 0:
            contains.add('---')
        if rnd % 5 == 0:
            contains.add('zzzz_not_there')
        if rnd % 11 == 0:
            contains.add('')
        addrs.add(table[names[(rnd // 13) % len(names)]])
        addrs.add((rnd % 1000) * w)
    dbg = engines.tmpdir() / 'c16.fjd'
    import contextlib
    import io
    with contextlib.redirect_stdout(io.StringIO()):
        h = get_breakpoint_handler(dbg, set(addrs) or None, set(exact) or None, set(contains) or None)
    want = set(addrs)
    want |= {table[n] for n in exact if n in table}
    want |= {table[n] for n in table for c in contains if c in n}
    got = set(h.breakpoints)
    if got != want:
        return Violation('c16:breakpoint-resolution', {'exact': sorted(exact), 'contains': sorted(contains), 'addresses': sorted(addrs),
                                                      'missing': sorted(want - got)[:5], 'extra': sorted(got - want)[:5]}, cl)
    for a, lab in h.breakpoints.items():
        if lab is not None and table.get(lab) != a:
            return Violation('c16:breakpoint-label-name', {'address': a, 'label': lab}, cl)
    feats = []
    if any(v >= 2 for k, v in inl.n_expansions.items() if inl.defs[k][0][3]):
        feats.append('macro with @ label expanded >= 2 times')
    if any(re.search(r':rep1:', k) for k in expected):
        feats.append('rep with n >= 2')
    bases = {}
    for name, _ in inl.debug_names:
        if '---' not in name:
            bases.setdefault(name.split('.')[-1], set()).add(name)
    if any(len(v) >= 2 for v in bases.values()):
        feats.append('same spelling in two namespaces')
    if len(parts) > 1:
        feats.append('multi-file')
    cl += feats
    return Ok(sorted(set(cl)), bool(set(feats) - {'multi-file'}))


def run_case(case):
    if case.get('kind') == 'roundtrip':
        return run_roundtrip(case)
    return run_table(case)
