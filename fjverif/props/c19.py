"""C19 - devices see the same program memory under every engine; the screen device decodes its documented stream."""
import hashlib
import zlib
import struct

from hypothesis import strategies as st

from fjverif import machine, imagegen, engines
from fjverif.imagegen import D
from fjverif.runner import Ok, Violation, Discard

ID = 'C19'
LEVEL = 'exploration'
RULE = ('(a) execution-guided images with IO + a device script (at attach time and at IO call k: read_word / write_word / '
        'read_data_byte / write_data_byte on in-segment addresses incl. words the program later executes or flips and '
        'lazy zero-tail words) run on featured, fast, native flat/hybrid/paged; every value returned to the device, the '
        'rest of the run and the final memory must equal the reference machine with the same script; (a2) the same with one '
        'lazy 256-page segment in which the device writes a word on 20..128 distinct pages and reads them all back.  (b1) screen command '
        'streams (valid: init bpp 4/8, palette sizes 0..256, set_palette, update_screen, update_rectangle incl. zero-size '
        'and edge-touching, raw; malformed: unknown command, bad bpp, zero dimension, update before init, rectangle '
        'exceeding the screen, truncated) over a dict-backed DeviceMemory at w in {16,32,64} against a reference decoder '
        'written from the ScreenIO docstring.  (b2) images that emit a screen stream and hold framebuffer/palette as '
        'packed bytes, run on all engines/storage modes with InMemoryScreen attached: identical frames.  non-trivial = '
        '(a) a device write to a word the program touches afterwards, (a2) >= 34 pages written and read back on a native run, (b) >= 2 presents with a palette change or '
        'rectangle update between them')
ASSUMPTIONS = ['out-of-segment device writes are outside the property (python reader makes the word valid, the native engine '
               'does not) and are not generated', 'screens <= 40x40']


# ------------------------------------------------------------------ (a) interleavings

class RefScript:
    def __init__(self, w, script, inp, log):
        self.w = w
        self.ww = w.bit_length() - 1
        self.by_k = {}
        for e in script:
            self.by_k.setdefault(e[0], []).append(e)
        self.inp = list(inp)
        self.log = log
        self.wrote = set()

    def apply(self, m, k):
        for e in self.by_k.get(k, []):
            op = e[1]
            if op == 'rw':
                self.log.append(m.peek(e[2]))
            elif op == 'ww':
                m.mem[e[2]] = e[3] & m.mask
                self.wrote.add(e[2])
            elif op == 'rb':
                if self.w < 16:
                    self.log.append('ValueError')
                else:
                    self.log.append((m.peek((e[2] >> self.ww) + 1) >> (self.ww + 1)) & 0xFF)
            elif op == 'wb':
                if self.w < 16:
                    self.log.append('ValueError')
                else:
                    wa = (e[2] >> self.ww) + 1
                    v = m.peek(wa)
                    msk = 0xFF << (self.ww + 1)
                    m.mem[wa] = ((v & ~msk) | ((e[3] & 0xFF) << (self.ww + 1))) & m.mask
                    self.wrote.add(wa)

    def on_write(self, m, k, bit):
        self.apply(m, k)

    def on_read(self, m, k):
        self.apply(m, k)
        if not self.inp:
            raise machine.EofSignal()
        return self.inp.pop(0)


class RealScript:
    def __init__(self, script, log):
        self.by_k = {}
        for e in script:
            self.by_k.setdefault(e[0], []).append(e)
        self.log = log

    def _do(self, dev, k):
        for e in self.by_k.get(k, []):
            op = e[1]
            try:
                if op == 'rw':
                    self.log.append(dev.mem.read_word(e[2]))
                elif op == 'ww':
                    dev.mem.write_word(e[2], e[3])
                elif op == 'rb':
                    self.log.append(dev.mem.read_data_byte(e[2]))
                elif op == 'wb':
                    dev.mem.write_data_byte(e[2], e[3])
            except ValueError:
                self.log.append('ValueError')

    def on_attach(self, dev):
        self._do(dev, 0)

    def on_call(self, dev, k, kind, bit):
        self._do(dev, k)
        return None


@st.composite
def interleave_cases(draw):
    img = draw(imagegen.images(widths=(8, 16, 32, 64, 64), max_steps_choices=(20, 40, 80)))
    d = D(draw)
    w = img['w']
    ww = w.bit_length() - 1
    words = []
    for s, l, data in img['segments']:
        idx = set(range(0, min(l, 48))) | set(range(max(0, l - 6), l)) | set(range(max(0, len(data) - 3), min(l, len(data) + 3)))
        for edge in (1 << 14, 1 << 23):
            if s < edge < s + l:
                idx |= set(range(max(0, edge - s - 3), min(l, edge - s + 3)))
        for k in (999, 1000, 1001):
            if len(data) + k < l:
                idx.add(len(data) + k)
        words.extend(s + i for i in sorted(idx))
    valid = set()
    ranges = [(s, s + l) for s, l, _ in img['segments']]

    def inseg(wa):
        return any(a <= wa < b for a, b in ranges)
    script = []
    for _ in range(d.int(1, 8)):
        k = d.choice([0, 0, 1, 1, 2, 3, d.int(1, 14)])
        op = d.choice(['rw', 'ww', 'ww', 'rb', 'wb'])
        wa = d.choice(words)
        if op in ('rw', 'ww'):
            val = d.int(0, (1 << w) - 1) if d.pct() < 50 else ((d.choice(words) & ~1) << ww)
            if d.pct() < 12:
                val += d.int(1, 1 << 12) << w  # documented: the value is masked to w bits
            script.append([k, op, wa, val])
        else:
            opw = wa if inseg(wa + 1) else wa - 1
            if not inseg(opw + 1) or opw < 0:
                continue
            script.append([k, op, opw << ww, d.int(0, 255) if d.pct() < 85 else d.int(256, 1 << 20)])
    img['script'] = script
    cfgs = [['featured', None, False], ['fast', None, False], ['native', None, False]]
    for _ in range(2):
        cfgs.append(['native', d.choice([1, 2, 3, 7, 1 << 14, (1 << 14) + 1, None] + [wd for wd in words[:40] if 0 < wd <= (1 << 22)]), d.pct() < 30])
    img['cfgs'] = cfgs
    img['kind'] = 'interleave'
    return img


@st.composite
def scatter_cases(draw):
    """an IO program plus one lazy all-zero segment of 256 16K-word pages above the flat window; the device writes one word
    in 34-128 of its pages (pairs of pages 128 apart included) and reads all of them back, at once and at a later IO call:
    the native page table grows (64 -> 128 -> 256 slots) between the write and the read, and the page cache evicts."""
    img = draw(imagegen.images(widths=(32, 64, 64), max_steps_choices=(20, 40), layouts={32: ['compact', 'few'], 64: ['compact', 'few']}))
    d = D(draw)
    w = img['w']
    top = max(s + l for s, l, _ in img['segments'])
    p0 = d.choice([600, 1024, 2000]) if w == 32 else d.choice([513, 1024, 4097, 1 << 20, 1 << 40])
    while (p0 << 14) < top:
        p0 += 1024
    npg = 256
    if ((p0 + npg) << 14) > (1 << (w - (w.bit_length() - 1))):
        p0 = 600
    img['segments'] = sorted(img['segments'] + [[p0 << 14, npg << 14, []]])
    sd = d.int(0, (1 << 30) - 1)
    n0 = d.choice([34, 45, 64, 24, 40])
    offs, seen = [], set()
    while len(offs) < n0:
        sd = (sd * 6364136223846793005 + 1442695040888963407) & ((1 << 64) - 1)
        o = (sd >> 20) % 128
        if o not in seen:
            seen.add(o)
            offs.append(o)
            if (sd >> 40) % 10 < 7:
                offs.append(o + 128)
    k1 = d.choice([0, 0, 1, 2])
    script, words = [], []
    for i, o in enumerate(offs):
        sd = (sd * 6364136223846793005 + 1442695040888963407) & ((1 << 64) - 1)
        wa = ((p0 + o) << 14) + (sd >> 30) % (1 << 14)
        words.append(wa)
        script.append([k1, 'ww', wa, ((sd >> 3) | 1) & ((1 << w) - 1)])
    order = list(words)
    if d.pct() < 50:
        order.reverse()
    script += [[k1, 'rw', wa, 0] for wa in order]
    script += [[k1 + d.int(0, 2), 'rw', wa, 0] for wa in words[::3]]
    img['script'] = script
    img['cfgs'] = [['native', None, False], ['native', d.choice([1, 1 << 14, None]), True], ['native', d.choice([64, (1 << 14) + 1]), False],
                   [d.choice(['fast', 'featured']), None, False]]
    img['kind'] = 'interleave'
    img['scatter'] = len(offs)
    return img


def run_interleave(case):
    w = case['w']
    segs = case['segments']
    reflog = []
    rs = RefScript(w, case['script'], case['input_bits'], reflog)
    m = machine.Machine(w, segs, (), device=rs, budget=20000)
    rs.apply(m, 0)
    ref = m.run()
    if ref.cause == machine.BUDGET:
        return Discard('reference budget')
    path = engines.tmpdir() / 'c19.fjm'
    engines.write_image(path, w, segs, case['version'])
    cl = ['family=%s' % ('scatter' if case.get('scatter') else 'interleave'), 'w=%d' % w]
    check_words = set()
    for s, l, d in segs:
        check_words.update(range(s, s + min(l, 2048)))
    check_words.update(wa for wa in ref.touched if m.valid(wa))
    check_words.update(rs.wrote)
    modes = set()
    for eng, flat, no_flat in case['cfgs']:
        log = []
        dev = engines.make_rec_device(case['input_bits'], script=RealScript(case['script'], log))
        o = engines.run_engine(path, eng, dev, flat=flat, knobs={'no_flat': no_flat})
        info = {'engine': eng, 'flat': flat, 'no_flat': no_flat, 'storage': o.storage}
        if o.exc is not None:
            return Violation('c19:%s:exception:%s' % (eng, type(o.exc).__name__), dict(info, exc=repr(o.exc)[:300]), cl)
        if log != reflog:
            i = next((i for i, (a, b) in enumerate(zip(log, reflog)) if a != b), min(len(log), len(reflog)))
            return Violation('c19:%s:device-read-value' % eng, dict(info, index=i, got=log[i:i + 3], expected=reflog[i:i + 3], script=case['script']), cl)
        if (o.cause, o.ops, o.fault, dev.calls) != (ref.cause, ref.ops, ref.fault, ref.calls):
            return Violation('c19:%s:run-after-device-access' % eng, dict(info, got=[o.cause, o.ops, o.fault], expected=[ref.cause, ref.ops, ref.fault]), cl)
        for wa in sorted(check_words):
            v = dev.mem.read_word(wa)
            e = m.peek(wa)
            if v != e:
                return Violation('c19:%s:final-memory' % eng, dict(info, word=wa, got=v, expected=e), cl)
        if o.storage:
            modes.add(o.storage)
            cl.append('storage=' + o.storage)
    wrote_then_touched = bool(rs.wrote & ref.touched)
    if wrote_then_touched:
        cl.append('device wrote a word the program touches')
    if any(e[1] in ('rb', 'wb') for e in case['script']):
        cl.append('packed byte access')
    if case.get('scatter'):
        cl.append('device scatter over %s 16K-word pages, read back' % ('>= 65' if case['scatter'] >= 65 else '34..64' if case['scatter'] >= 34 else '< 34'))
        return Ok(sorted(set(cl)), case['scatter'] >= 34 and len(modes) >= 1)
    return Ok(sorted(set(cl)), wrote_then_touched and ref.ops >= 3)


# ------------------------------------------------------------------ (b) screen

class RefScreen:
    """reference decoder written from the ScreenIO module docstring"""

    def __init__(self, w, read_byte):
        self.ab = w // 8
        self.dw = 2 * w
        self.rb = read_byte  # op bit address -> packed byte
        self.width = self.height = 0
        self.bpp = 8
        self.psize = 0
        self.palette = []
        self.pix = []
        self.frames = []  # (pixel list, palette list)
        self.error_at = None

    def feed(self, data):
        """returns index of the byte at which the stream is rejected, or None"""
        i = 0
        n = len(data)
        while i < n:
            c = data[i]
            if c == 1:
                ln = 8
            elif c in (2, 3):
                ln = 1 + self.ab
            elif c == 4:
                ln = 9 + self.ab
            elif c == 5:
                if self.width == 0:
                    return i
                ln = 1 + self.width * self.height
            else:
                return i
            if i + ln > n:
                return None  # incomplete trailing command: nothing happens
            p = data[i + 1:i + ln]
            last = i + ln - 1
            if c == 1:
                wd, ht, bpp, ps = p[0] | p[1] << 8, p[2] | p[3] << 8, p[4], p[5] | p[6] << 8
                if bpp not in (4, 8) or wd == 0 or ht == 0:
                    return last
                self.width, self.height, self.bpp, self.psize = wd, ht, bpp, ps
                self.palette = [(0, 0, 0)] * ps
                self.pix = [0] * (wd * ht)
            elif c == 2:
                a = int.from_bytes(bytes(p), 'little')
                b = [self.rb(a + k * self.dw) for k in range(3 * self.psize)]
                self.palette = [(b[3 * k], b[3 * k + 1], b[3 * k + 2]) for k in range(self.psize)]
            elif c == 3:
                if self.width == 0:
                    return last
                a = int.from_bytes(bytes(p), 'little')
                mask = (1 << self.bpp) - 1
                self.pix = [self.rb(a + k * self.dw) & mask for k in range(self.width * self.height)]
                self.present()
            elif c == 4:
                if self.width == 0:
                    return last
                x, y, rw, rh = (p[0] | p[1] << 8, p[2] | p[3] << 8, p[4] | p[5] << 8, p[6] | p[7] << 8)
                a = int.from_bytes(bytes(p[8:]), 'little')
                if x + rw > self.width or y + rh > self.height:
                    return last
                mask = (1 << self.bpp) - 1
                for r in range(rh):
                    for cidx in range(rw):
                        pi = (y + r) * self.width + x + cidx
                        self.pix[pi] = self.rb(a + pi * self.dw) & mask
                self.present()
            elif c == 5:
                mask = (1 << self.bpp) - 1
                self.pix = [v & mask for v in p]
                self.present()
            i += ln
        return None

    def present(self):
        self.frames.append((list(self.pix), list(self.palette)))


def frame_digest(pix, palette):
    return hashlib.sha256(bytes(pix) + b''.join(bytes(c) for c in palette)).hexdigest()


def frame_rgb(pix, palette):
    return [palette[i] if i < len(palette) else (0, 0, 0) for i in pix]


def decode_png(b):
    assert b[:8] == b'\x89PNG\r\n\x1a\n'
    pos = 8
    idat = b''
    wh = None
    while pos < len(b):
        ln, typ = struct.unpack('>I4s', b[pos:pos + 8])
        data = b[pos + 8:pos + 8 + ln]
        crc = struct.unpack('>I', b[pos + 8 + ln:pos + 12 + ln])[0]
        assert zlib.crc32(typ + data) & 0xFFFFFFFF == crc
        if typ == b'IHDR':
            wh = struct.unpack('>IIBBBBB', data)
        elif typ == b'IDAT':
            idat += data
        pos += 12 + ln
    raw = zlib.decompress(idat)
    wd, ht = wh[0], wh[1]
    out = []
    for r in range(ht):
        row = raw[r * (1 + 3 * wd):(r + 1) * (1 + 3 * wd)]
        assert row[0] == 0
        out.extend((row[1 + 3 * c], row[2 + 3 * c], row[3 + 3 * c]) for c in range(wd))
    return wd, ht, out


@st.composite
def screen_streams(draw):
    d = D(draw)
    w = d.choice([16, 32, 64])
    dw = 2 * w
    ab = w // 8
    cmds = []
    mem_bytes = {}  # op index (address // dw) -> byte
    wd = ht = 0
    psize = 0
    malformed = d.pct() < 35
    bad_at = d.int(0, 5) if malformed else -1
    base_slots = [0, 3, 100, 1000, (1 << (w - 8)) // dw if w < 64 else 1 << 40]

    def addr_bytes(a):
        return list(a.to_bytes(ab, 'little'))
    n = d.int(1, 7)
    for ci in range(n):
        r = d.pct()
        if ci == bad_at:
            kind = d.choice(['unknown', 'badbpp', 'zerodim', 'noinit', 'rect-exceeds', 'truncate'])
            if kind == 'unknown':
                cmds.append(['bytes', [d.choice([0, 6, 7, 0x10, 0xFF, d.int(6, 255)])]])
            elif kind == 'badbpp':
                cmds.append(['bytes', [1, 4, 0, 4, 0, d.choice([0, 1, 2, 3, 5, 7, 9, 16, 255]), 2, 0]])
            elif kind == 'zerodim':
                cmds.append(['bytes', [1] + d.choice([[0, 0, 4, 0], [4, 0, 0, 0], [0, 0, 0, 0]]) + [8, 2, 0]])
            elif kind == 'noinit' and wd == 0:
                cmds.append(['bytes', d.choice([[3] + addr_bytes(0), [5], [4, 0, 0, 0, 0, 1, 0, 1, 0] + addr_bytes(0)])])
            elif kind == 'rect-exceeds' and wd:
                x = d.int(0, wd)
                y = d.int(0, ht)
                cmds.append(['bytes', [4] + list(struct.pack('<HHHH', x, y, wd - x + d.int(1, 3), d.int(0, ht - y))) + addr_bytes(0)])
            elif kind == 'truncate':
                cmds.append(['bytes', [1, 4, 0]])
                break
            else:
                cmds.append(['bytes', [d.int(6, 255)]])
            continue
        if wd == 0 or r < 15:
            wd, ht = d.choice([1, 2, 3, 5, 8, 13, 40]), d.choice([1, 2, 3, 4, 7, 16])
            psize = d.choice([0, 1, 2, 3, 16, 17, 255, 256])
            bpp = d.choice([4, 8])
            cmds.append(['bytes', [1] + list(struct.pack('<HHBH', wd, ht, bpp, psize))])
        elif r < 35:
            base = d.choice(base_slots) + d.int(0, 50)
            for k in range(3 * psize):
                mem_bytes.setdefault(base + k, d.int(0, 255))
            cmds.append(['bytes', [2] + addr_bytes(base * dw)])
        elif r < 60:
            base = d.choice(base_slots) + d.int(0, 50)
            for k in range(wd * ht):
                mem_bytes.setdefault(base + k, d.int(0, 255) if d.pct() < 70 else d.int(0, max(0, psize)))
            cmds.append(['bytes', [3] + addr_bytes(base * dw)])
        elif r < 85:
            base = d.choice(base_slots) + d.int(0, 50)
            x = d.int(0, wd)
            y = d.int(0, ht)
            rw = d.int(0, wd - x)
            rh = d.int(0, ht - y)
            for rr in range(rh):
                for cc in range(rw):
                    mem_bytes.setdefault(base + (y + rr) * wd + x + cc, d.int(0, 255))
            cmds.append(['bytes', [4] + list(struct.pack('<HHHH', x, y, rw, rh)) + addr_bytes(base * dw)])
        else:
            cmds.append(['bytes', [5] + [d.int(0, 255) for _ in range(wd * ht)]])
    stream = [b for c in cmds for b in c[1]]
    case = {'kind': 'screen', 'w': w, 'stream': stream, 'mem': sorted(mem_bytes.items()), 'png': d.pct() < 20}
    if d.pct() < 25:
        # the device object was used before, attached to a memory of another width: a complete earlier session
        # (configure + palette / screen update with w0/8 address bytes), then attach_memory() of this case's memory
        w0 = d.choice([x for x in (16, 32, 64) if x != w])
        pw, ph = d.choice([1, 2, 3]), d.choice([1, 2])
        pre = [1] + list(struct.pack('<HHBH', pw, ph, 8, d.choice([0, 1, 2])))
        pre += [d.choice([2, 3])] + list((d.int(0, 20) * 2 * w0).to_bytes(w0 // 8, 'little'))
        case['pre'] = {'w0': w0, 'stream': pre}
    return case


def run_screen(case):
    from flipjump.interpreter.io_devices.ScreenIO import InMemoryScreen
    from flipjump.interpreter.io_devices.device_memory import DeviceMemory
    from flipjump.utils.exceptions import IODeviceException
    w = case['w']
    ww = w.bit_length() - 1
    dwb = 2 * w
    words = {}
    for slot, byte in case['mem']:
        words[((slot * dwb) >> ww) + 1] = (byte << (ww + 1)) | 0x1  # some junk in the low bits too

    class DictMemory(DeviceMemory):
        memory_width = w

        def read_word(self, word_address):
            return words.get(word_address, 0)

        def write_word(self, word_address, value):
            words[word_address] = value & ((1 << w) - 1)

    def rb(op_addr):
        return (words.get((op_addr >> ww) + 1, 0) >> (ww + 1)) & 0xFF
    pre = case.get('pre')
    if pre:
        # the earlier session ran against an all-zero memory of width w0
        ref = RefScreen(pre['w0'], lambda op_addr: 0)
        if ref.feed(pre['stream']) is not None:
            return Discard('earlier session malformed')
        ref.ab, ref.dw, ref.rb = w // 8, 2 * w, rb
    else:
        ref = RefScreen(w, rb)
    bad = ref.feed(case['stream'])
    import tempfile
    import shutil
    frames_dir = None
    if case.get('png'):
        from pathlib import Path
        frames_dir = Path(tempfile.mkdtemp(prefix='png.', dir=str(engines.tmpdir())))
    scr = InMemoryScreen(frames_dir=frames_dir)
    cl = ['family=screen', 'w=%d' % w]
    if pre:
        class ZeroMemory(DeviceMemory):
            memory_width = pre['w0']

            def read_word(self, word_address):
                return 0

            def write_word(self, word_address, value):
                pass
        scr.attach_memory(ZeroMemory())
        try:
            for byte in pre['stream']:
                for b in range(8):
                    scr.write_bit(bool((byte >> b) & 1))
        except Exception as e:  # noqa
            return Violation('c19:screen:earlier-session-raises:' + type(e).__name__, {'exc': repr(e)[:200], 'pre': pre}, cl)
        cl.append('device re-attached to a memory of another width')
    scr.attach_memory(DictMemory())
    failed_at = None
    for i, byte in enumerate(case['stream']):
        try:
            for b in range(8):
                scr.write_bit(bool((byte >> b) & 1))
        except IODeviceException:
            failed_at = i
            break
        except Exception as e:
            return Violation('c19:screen:raw-exception:' + type(e).__name__, {'at': i, 'exc': repr(e)[:200], 'stream': case['stream'][:60]}, cl)
    if failed_at != bad:
        return Violation('c19:screen:rejection-point', {'device_rejected_at': failed_at, 'reference_rejects_at': bad, 'stream': case['stream'][:80]}, cl)
    if bad is not None:
        cl.append('malformed stream rejected')
    # frames presented before the rejection must match
    if scr.frame_count != len(ref.frames):
        return Violation('c19:screen:frame-count', {'got': scr.frame_count, 'expected': len(ref.frames)}, cl)
    for k, (pix, pal) in enumerate(ref.frames):
        if scr.frame_hashes[k][1] != frame_digest(pix, pal):
            return Violation('c19:screen:frame-digest', {'frame': k, 'stream': case['stream'][:80]}, cl)
    if ref.frames:
        pix, pal = ref.frames[-1]
        if list(scr.pixel_indices) != ref.pix and bad is None:
            return Violation('c19:screen:pixel-indices', {'stream': case['stream'][:80]}, cl)
        if scr.last_frame_rgb != frame_rgb(pix, pal):
            return Violation('c19:screen:last-frame-rgb', {'stream': case['stream'][:80]}, cl)
    if bad is None and list(scr.palette) != ref.palette:
        return Violation('c19:screen:palette', {'got': scr.palette[:4], 'expected': ref.palette[:4]}, cl)
    if frames_dir is not None:
        try:
            for k, (pix, pal) in enumerate(ref.frames):
                p = frames_dir / ('frame_%06d.png' % k)
                wd, ht, rgb = decode_png(p.read_bytes())
                if rgb != frame_rgb(pix, pal):
                    return Violation('c19:screen:png-content', {'frame': k}, cl)
            cl.append('png decoded')
        finally:
            shutil.rmtree(frames_dir, ignore_errors=True)
    nt = len(ref.frames) >= 2 and len({frame_digest(p, q) for p, q in ref.frames}) >= 2
    return Ok(cl + ['frames>=1'] if ref.frames else cl, nt)


# ------------------------------------------------------------------ (b2) program-driven screen on all engines

@st.composite
def screen_programs(draw):
    d = D(draw)
    w = d.choice([16, 32, 64])
    wd, ht = d.choice([1, 2, 3, 5]), d.choice([1, 2, 4])
    psize = d.choice([0, 2, 16])
    bpp = d.choice([4, 8])
    fb = [d.int(0, 255) for _ in range(wd * ht)]
    pal = [d.int(0, 255) for _ in range(3 * psize)]
    fb2 = [d.int(0, 255) for _ in range(wd * ht)]
    x = d.int(0, wd)
    y = d.int(0, ht)
    rect = [x, y, d.int(0, wd - x), d.int(0, ht - y)]
    order = d.choice([['init', 'pal', 'screen', 'rect'], ['init', 'screen', 'pal', 'rect', 'screen'], ['init', 'pal', 'rect']])
    return {'kind': 'screen-program', 'w': w, 'dim': [wd, ht, bpp, psize], 'fb': fb, 'pal': pal, 'fb2': fb2, 'rect': rect, 'order': order,
            'gap': d.choice([0, 0, (1 << 14), (1 << 23)]), 'flat': d.choice([None, 1, 3, 64, 1 << 14])}


def build_screen_image(case):
    """an image whose ops emit the stream bit by bit, followed (possibly far away) by packed-byte data ops"""
    w = case['w']
    ww = w.bit_length() - 1
    dw = 2 * w
    wd, ht, bpp, psize = case['dim']
    ab = w // 8
    # layout: op0 jumps over the IO slot; stream ops; then halt; data segment
    # first compute the stream with placeholder addresses (length does not depend on values)
    def stream_for(fb_addr, pal_addr, fb2_addr):
        out = []
        for c in case['order']:
            if c == 'init':
                out += [1] + list(struct.pack('<HHBH', wd, ht, bpp, psize))
            elif c == 'pal':
                out += [2] + list(pal_addr.to_bytes(ab, 'little'))
            elif c == 'screen':
                out += [3] + list(fb_addr.to_bytes(ab, 'little'))
            elif c == 'rect':
                out += [4] + list(struct.pack('<HHHH', *case['rect'])) + list(fb2_addr.to_bytes(ab, 'little'))
        return out
    nbits = 8 * len(stream_for(0, 0, 0))
    code_ops = 2 + nbits + 1  # op0, skipped IO slot, stream ops, halt
    code_words = 2 * code_ops
    data_start = code_words + case['gap']
    data_start += data_start % 2
    fb_op = data_start // 2
    pal_op = fb_op + len(case['fb'])
    fb2_op = pal_op + len(case['pal'])
    stream = stream_for(fb_op * dw, pal_op * dw, fb2_op * dw)
    words = [0, 2 * dw, 0, 0]  # op0: flip bit 0 of word 0... (flip address 0), jump to slot 2; slot 1 unused
    words[0] = (code_words - 1) * w  # flip a bit in the halt op's jump word? no: keep harmless: bit in the last code word
    cur = 2
    bits = [(byte >> b) & 1 for byte in stream for b in range(8)]
    for i, bit in enumerate(bits):
        words += [dw + bit, (cur + 1) * dw]
        cur += 1
    words += [0, cur * dw]  # halt: self loop (flips address 0 bit 0 of word 0 - not own op)
    # fix op0's flip to something harmless: a data bit far from the stream
    data = []
    for byte in case['fb'] + case['pal'] + case['fb2']:
        data += [0, byte << (ww + 1)]
    words[0] = (data_start + 0) * w  # flips bit 0 of the first data op's flip word (not the packed byte)
    segs = [[0, len(words), words]]
    if case['gap']:
        segs.append([data_start, len(data) + 2, data])
    else:
        segs[0][2] = words + [0] * (data_start - len(words)) + data
        segs[0][1] = len(segs[0][2])
    return segs, stream


def run_screen_program(case):
    from flipjump.interpreter.io_devices.ScreenIO import InMemoryScreen
    w = case['w']
    ww = w.bit_length() - 1
    space = 1 << (w - ww)
    try:
        segs, stream = build_screen_image(case)
    except OverflowError:
        return Discard('does not fit the address space')
    if any(s + l > space for s, l, _ in segs):
        return Discard('does not fit the address space')
    mem = {}
    for s, l, d in segs:
        for i, v in enumerate(d):
            mem[s + i] = v
    # op0 flips bit 0 of the first data word before anything is read
    ref = RefScreen(w, lambda a: (mem.get((a >> ww) + 1, 0) >> (ww + 1)) & 0xFF)
    bad = ref.feed(stream)
    if bad is not None:
        return Discard('generated stream invalid')
    path = engines.tmpdir() / 'c19s.fjm'
    engines.write_image(path, w, segs, 1)
    cl = ['family=screen-program', 'w=%d' % w]
    digests = [frame_digest(p, q) for p, q in ref.frames]
    for eng, flat, no_flat in (('featured', None, False), ('fast', None, False), ('native', None, False),
                               ('native', case['flat'], False), ('native', None, True)):
        scr = InMemoryScreen()
        o = engines.run_engine(path, eng, scr, flat=flat, knobs={'no_flat': no_flat})
        if o.exc is not None:
            return Violation('c19:screen-program:%s:exception' % eng, {'exc': repr(o.exc)[:300], 'storage': o.storage}, cl)
        if o.cause != 'Looping':
            return Violation('c19:screen-program:%s:termination' % eng, {'got': [o.cause, o.ops, o.fault]}, cl)
        got = [h for _, h in scr.frame_hashes]
        if got != digests:
            return Violation('c19:screen-program:%s:frames-differ' % eng, {'storage': o.storage, 'frames_got': len(got), 'frames_expected': len(digests)}, cl)
        if o.storage:
            cl.append('storage=' + o.storage)
    return Ok(sorted(set(cl)), len(set(digests)) >= 2)


def families(tier):
    q = tier == 'quick'
    return [{'name': 'device-interleavings', 'strategy': interleave_cases, 'examples': 500 if q else 20000},
            {'name': 'device-page-scatter', 'strategy': scatter_cases, 'examples': 30 if q else 1500},
            {'name': 'screen-streams', 'strategy': screen_streams, 'examples': 400 if q else 20000},
            {'name': 'screen-programs', 'strategy': screen_programs, 'examples': 40 if q else 2000}]


def run_case(case):
    k = case.get('kind')
    if k == 'screen':
        return run_screen(case)
    if k == 'screen-program':
        return run_screen_program(case)
    return run_interleave(case)
