"""C03 - macro expansion is hygienic inlining."""
import contextlib
import io
import os

from hypothesis import strategies as st

from fjverif import engines, asmref, macrogen
from fjverif.imagegen import D
from fjverif.runner import Ok, Violation, Discard

ID = 'C03'
LEVEL = 'exploration'
RULE = ('macro programs generated as ASTs over a deliberately tiny identifier pool {a,b,d,i,l,x,n} so that caller and callee '
        'spellings collide: parameters, @ locals, label parameters, arity overloads, nested namespaces with dotted / . / .. '
        'relative spellings, call DAGs of depth <= 5, rep(n,i) with n in 0..3 (literal, constant or parameter) and iterators '
        'that reuse names, arguments that are expressions over the caller\'s parameters / locals / iterator / labels.  '
        'Oracle (metamorphic): image(macro program) == image(reference-inlined macro-free program), both assembled by the '
        'real assembler, and image(program split over k files at top-level boundaries) == image(single file).  '
        'non-trivial = call depth >= 2 and >= 1 identifier collision between caller and callee scopes')
ASSUMPTIONS = ['reference inliner fjverif/macrogen.py written from the property statement; the macro-free side is anchored by C02',
               '"$" inside macro-call arguments is excluded (rejected by the assembler; unused in stl/programs)']

POOL = macrogen.POOL


@st.composite
def macro_programs(draw):
    d = D(draw)
    w = d.choice([16, 32, 64])
    consts = {}
    items_top = []
    for i in range(d.int(0, 2)):
        consts['k%d' % i] = d.int(0, 5)
        items_top.append(['stmt', ['const', 'k%d' % i, ['n', consts['k%d' % i], 'dec']]])
    # global labels (declared later at top level, possibly inside namespaces)
    ns_names = [[], []] + [[d.choice(['p', 'q', 'a', 'x'])] for _ in range(d.int(0, 2))]
    if d.pct() < 40 and len(ns_names) > 2:
        ns_names.append(ns_names[-1] + [d.choice(['p', 'q', 'b'])])
    glabels = []
    for _ in range(d.int(1, 5)):
        ns = d.choice(ns_names)
        full = '.'.join(ns + [d.choice(POOL)])
        if full not in glabels and full not in consts:
            glabels.append(full)
    collisions = 0
    # ---- macros
    macros = []  # dict(full, ns, name, params, locals, body, label_param, depth)
    taken = set()
    n_macros = d.int(2, 7)
    for mi in range(n_macros):
        ns = d.choice(ns_names)
        name = d.choice(['m', 'f', 'g', 'a', 'x'])
        nparams = d.int(0, 3)
        full = '.'.join(ns + [name])
        if (full, nparams) in taken or full in glabels:
            continue
        taken.add((full, nparams))
        names = []
        while len(names) < nparams + d.int(0, 2):
            c = d.choice(POOL)
            if c not in names and c not in consts:
                names.append(c)
        params, locals_ = names[:nparams], names[nparams:]
        label_param = None
        if params and d.pct() < 15:
            label_param = params[0]
        scope = set(params) | set(locals_)
        forbidden = scope | {'.'.join(ns + [s]) for s in scope}
        usable_globals = [g for g in glabels if g not in forbidden]
        callees = [m for m in macros if m['depth'] < 4 and not m['label_param']]

        def operand(extra=()):
            r = d.pct()
            cands = [p for p in params if p != label_param] + list(extra)
            if cands and r < 40:
                return ['id', d.choice(cands)]
            if locals_ and r < 60:
                return ['id', d.choice(locals_)]
            if usable_globals and r < 80:
                return ['id', d.choice(usable_globals)]
            if consts and r < 88:
                return ['id', d.choice(sorted(consts))]
            return ['n', d.int(0, 40), 'dec']

        def expr(extra=()):
            r = d.pct()
            if r < 45:
                return operand(extra)
            if r < 85:
                return ['b', '+', operand(extra), ['n', d.int(0, 9), 'dec']]
            return ['b', '+', ['b', '*', operand(extra), ['n', d.int(0, 3), 'dec']], operand(extra)]
        body = []
        depth = 0
        to_declare = list(locals_)
        counts = set()

        def count_arg():
            # a value that ends up as a rep count must stay small: a literal, or one of our own parameters
            # (which then becomes a count parameter of this macro too)
            own = [p for p in params if p != label_param]
            if own and d.pct() < 40:
                p = d.choice(own)
                counts.add(p)
                return ['id', p]
            return ['n', d.int(0, 3), 'dec']
        for _ in range(d.int(1, 5)):
            r = d.pct()
            if to_declare and r < 35:
                body.append(['stmt', ['label', to_declare.pop()]])
            if r < 50 or not callees:
                if d.pct() < 12:
                    # pad to a multiple of N ops (N need not be a power of two): labels behind it depend on the padding
                    if d.bool():
                        body.append(['stmt', ['pad', ['n', d.choice([1, 2, 3, 4, 5, 6, 7, 8, 12]), 'dec']]])
                    else:
                        # the alignment depends on a parameter of the macro (substituted like any other operand)
                        body.append(['stmt', ['pad', ['b', '+', count_arg(), ['n', d.choice([1, 2, 3, 5]), 'dec']]]])
                    body.append(['stmt', ['op', None, None]])
                elif d.pct() < 80:
                    body.append(['stmt', ['op', expr() if d.pct() < 70 else None, expr() if d.pct() < 70 else None]])
                else:
                    body.append(['stmt', ['wflip', expr(), ['n', d.choice([0, 1, 3, 5, 0x81]), 'hex'], expr() if d.bool() else None]])
            elif r < 78:
                c = d.choice(callees)
                args = [count_arg() if pp in c['counts'] else expr() for pp in c['params']]
                for a in args:
                    if a[0] == 'id' and a[1] in (set(c['params']) | set(c['locals'])):
                        collisions += 1
                body.append(['call', c['full'], args])
                depth = max(depth, c['depth'] + 1)
            else:
                c = d.choice(callees)
                it = d.choice(POOL)
                if it in scope or it in c['params'] or it in c['locals']:
                    collisions += 1
                nexpr = d.choice([['n', d.int(0, 3), 'dec'], ['n', d.int(0, 3), 'dec']] + ([['id', p] for p in params if p != label_param and p != it][:1]))
                if nexpr[0] == 'id':
                    counts.add(nexpr[1])
                args = [count_arg() if pp in c['counts'] else (expr((it,)) if d.pct() < 70 else ['id', it]) for pp in c['params']]
                body.append(['rep', nexpr, it, c['full'], args])
                depth = max(depth, c['depth'] + 1)
        for loc in to_declare:
            body.append(['stmt', ['label', loc]])
        if label_param:
            body.insert(d.int(0, len(body)), ['stmt', ['label', label_param]])
        macros.append({'full': full, 'ns': ns, 'name': name, 'params': params, 'locals': locals_, 'body': body,
                       'label_param': label_param, 'depth': depth, 'counts': counts})
    # ---- top level
    top = []
    fresh_u = [0]

    def top_arg(m, p, extra=()):
        if p == m['label_param']:
            fresh_u[0] += 1
            return ['id', 'u%d' % fresh_u[0]]
        if p in m['counts']:
            return ['n', d.int(0, 3), 'dec']
        r = d.pct()
        if extra and r < 30:
            return ['id', d.choice(list(extra))]
        if glabels and r < 65:
            g = d.choice(glabels)
            return ['id', g] if d.bool() else ['b', '+', ['id', g], ['n', d.int(0, 5), 'dec']]
        return ['n', d.int(0, 60), 'dec']
    # count params forwarded through nested calls must stay small: only literals / small ints reach them
    pending_labels = list(glabels)
    n_top = d.int(2, 8)
    body_top = []
    for _ in range(n_top):
        r = d.pct()
        if pending_labels and r < 40:
            body_top.append(('label', pending_labels.pop()))
        if r < 30:
            body_top.append(('op', None))
        elif macros:
            m = d.choice(macros)
            if r < 80 and not (m['label_param'] and r >= 55):
                body_top.append(('call', m))
            else:
                body_top.append(('rep', m))   # (a macro with a label parameter is repeated at most once, see below)
    for g in pending_labels:
        body_top.append(('label', g))
    body_top.append(('op', None))

    # group everything by namespace into items: defs and labels live in their namespaces
    def place(ns, item, root):
        cur = root
        for comp in ns:
            for it in cur:
                if it[0] == 'ns' and it[1] == comp and it is cur[-1]:
                    cur = it[2]
                    break
            else:
                new = ['ns', comp, []]
                cur.append(new)
                cur = new[2]
        cur.append(item)
    defs_first = d.bool()
    root = list(items_top)
    def_items = []
    for m in macros:
        def_items.append((m['ns'], ['def', m['name'], m['params'], m['locals'], m['body']]))
    if defs_first:
        for ns, it in def_items:
            place(ns, it, root)
    for kind, obj in body_top:
        if kind == 'label':
            ns = obj.split('.')[:-1]
            place(ns, ['stmt', ['label', obj.split('.')[-1]]], root)
        elif kind == 'op':
            g = d.choice(glabels) if glabels else None
            root.append(['stmt', ['op', ['n', d.int(0, 50), 'dec'] if d.bool() else None, ['id', g] if g and d.bool() else None]])
        elif kind == 'call':
            m = obj
            root.append(['call', m['full'], [top_arg(m, p) for p in m['params']]])
        else:
            m = obj
            it = d.choice(POOL)
            if it in m['params'] or it in m['locals'] or it in glabels:
                collisions += 1
            # a macro that declares a label through a parameter can be repeated once only (twice would declare it twice)
            once = ['n', d.choice([1, 1, 1, 0]), 'dec'] if m['label_param'] else None
            root.append(['rep', once or (['n', d.int(0, 3), 'dec'] if not consts or d.bool() else ['id', d.choice(sorted(consts))]), it, m['full'],
                         [top_arg(m, p, (it,)) for p in m['params']]])
    if not defs_first:
        for ns, it in def_items:
            place(ns, it, root)
    return {'w': w, 'items': root, 'spell_seed': d.int(0, 1000), 'style': d.choice(['min', 'full']), 'splits': sorted({d.int(0, 40) for _ in range(d.int(0, 3))}),
            'collisions': collisions}


def families(tier):
    q = tier == 'quick'
    return [{'name': 'macro-programs', 'strategy': macro_programs, 'examples': 500 if q else 30000}]


def assemble_files(texts, w, tag, debug=False):
    """texts: list of file contents, in order. -> ('ok', reader, labels) | ('rejected', exc) | ..."""
    import flipjump
    from flipjump.fjm.fjm_consts import FJMVersion
    from flipjump.fjm.fjm_reader import Reader
    from flipjump.utils.exceptions import FlipJumpException
    from flipjump.utils.functions import load_debugging_labels
    tmp = engines.tmpdir()
    paths = []
    for i, t in enumerate(texts):
        p = tmp / ('%s_%d.fj' % (tag, i))
        p.write_text(t)
        paths.append(p)
    out = tmp / (tag + '.fjm')
    dbg = tmp / (tag + '.fjd')
    for p in (out, dbg):
        if os.path.exists(p):
            os.unlink(p)
    try:
        with contextlib.redirect_stdout(io.StringIO()), engines.hang_guard(60):
            flipjump.assemble(paths, out, memory_width=w, fjm_version=FJMVersion(0), print_time=False, warning_as_errors=False,
                              use_stl=False, debugging_file_path=dbg if debug else None)
    except FlipJumpException as e:
        return ('rejected', e, None)
    except engines.EngineTimeout:
        return ('timeout', None, None)
    except Exception as e:
        return ('raw', e, None)
    return ('ok', Reader(out), load_debugging_labels(dbg) if debug else None)


def image_of(reader):
    segs = [(s.segment_start, s.segment_length) for s in reader.memory_segments]
    return segs, dict(reader.memory), list(reader.zeros_boundaries)


def split_top_level(items, cuts):
    """cut the top-level item list at the given indices"""
    cuts = sorted({c % (len(items) + 1) for c in cuts} - {0, len(items)})
    parts = []
    prev = 0
    for c in cuts:
        parts.append(items[prev:c])
        prev = c
    parts.append(items[prev:])
    return [p for p in parts if p]


def run_case(case):
    w = case['w']
    items = case['items']
    cl = ['w=%d' % w]
    src, rend = macrogen.render(items, case['spell_seed'], case['style'])
    try:
        inl = macrogen.inline(items, w)
    except (macrogen.InlineError, KeyError, exprref_error()) as e:
        return Discard('generator produced an invalid program: %s' % type(e).__name__)
    flat = asmref.render_program(inl.out, 'min')
    a = assemble_files([src], w, 'c03m')
    b = assemble_files([flat], w, 'c03f')
    if a[0] == 'timeout' or b[0] == 'timeout':
        return Discard('inconclusive: assembler wall guard')
    if a[0] == 'raw':
        return Violation('c03:raw-exception:' + type(a[1]).__name__, {'exc': repr(a[1])[:300], 'src': src[:900]}, cl)
    if b[0] != 'ok':
        if a[0] != 'ok':
            return Discard('both rejected (not a valid program)')
        return Violation('c03:macro-program-accepted-but-inlined-rejected', {'exc': repr(b[1])[:300], 'src': src[:900], 'inlined': flat[:900]}, cl)
    if a[0] != 'ok':
        return Violation('c03:inlined-accepted-but-macro-program-rejected', {'exc': repr(a[1])[:400], 'src': src[:1200], 'inlined': flat[:600]}, cl)
    ia, ib = image_of(a[1]), image_of(b[1])
    if ia != ib:
        diff = sorted(k for k in set(ia[1]) | set(ib[1]) if ia[1].get(k) != ib[1].get(k))[:4]
        return Violation('c03:image-differs-from-inlined', {'first_diff_words': [(k, ia[1].get(k), ib[1].get(k)) for k in diff], 'segments': [ia[0][:3], ib[0][:3]],
                                                           'src': src[:1500], 'inlined': flat[:900]}, cl)
    # file splits
    if case.get('splits'):
        parts = split_top_level(items, case['splits'])
        if len(parts) > 1:
            texts = []
            for k, p in enumerate(parts):
                t, _ = macrogen.render(p, case['spell_seed'] + k, case['style'])
                texts.append(t)
            c = assemble_files(texts, w, 'c03s')
            if c[0] != 'ok':
                # a const defined in an earlier file is still visible; any failure is a difference
                return Violation('c03:split-program-rejected', {'exc': repr(c[1])[:300], 'files': [t[:400] for t in texts]}, cl)
            if image_of(c[1]) != ia:
                return Violation('c03:split-changes-image', {'files': [t[:500] for t in texts]}, cl)
            cl.append('split into %d files' % len(parts))
    if inl.max_depth >= 2:
        cl.append('call depth>=2')
    if inl.max_depth >= 3:
        cl.append('call depth>=3')
    if case.get('collisions'):
        cl.append('name collisions')
    if any(v >= 2 for v in inl.n_expansions.values()):
        cl.append('macro expanded >= 2 times')
    if any(it[0] == 'ns' for it in items):
        cl.append('namespaces')
    return Ok(sorted(set(cl)), inl.max_depth >= 2 and bool(case.get('collisions')))


def exprref_error():
    from fjverif import exprref
    return exprref.EvalError
