"""C02 - the assembled image equals the denotation of the macro-free source."""
import contextlib
import io
import os

from hypothesis import strategies as st

from fjverif import engines, asmref, exprref
from fjverif.imagegen import D
from fjverif.runner import Ok, Violation, Discard

ID = 'C02'
LEVEL = 'exploration'
RULE = ('programs over the primitive statements generated as ASTs (ops in the four forms F;J / F; / ;J / ;, labels with '
        'forward and backward references, constants, wflip a,v[,r] with v = 0 / one bit / many bits / repeated (a,v,r) '
        'triples / same r different v, pad, segment, reserve, expressions over labels, constants and $) and rendered '
        'with varied parenthesisation and line layout; w in 8/16/32/64, fjm version 0-3.  ~80% are constructed valid, the '
        'rest carry one injected layout fault (overlap, address >= 2^w, misaligned segment/reserve, pad at a non-op-aligned '
        'address, op word / wflip value out of range, pad 0, duplicate label).  Oracle = layout model + wflip chain walker '
        'on Reader(image) and the saved label table.  non-trivial = a wflip with popcount >= 2 and one of: pad hole '
        'reused, second segment, reserve, shared chain')
ASSUMPTIONS = ['layout model fjverif/asmref.py written from the property statement',
               'which FlipJumpException subclass / message a rejected program gets is C14\'s business',
               'w-aligned but not 2w-aligned segment/reserve requests are treated as undetermined (only consistency is checked if accepted)']


def small_expr(d, target, labels, consts, w, allow_dollar_value=None):
    """an expression AST that evaluates to `target` (0 <= target), built from labels / consts / literals / $"""
    e = _small_expr(d, target, labels, consts, w, allow_dollar_value)
    r = d.pct()
    if r < 5:
        # exact integer division far above 2^53: (e * K + (K - 1)) / K == e for every e >= 0
        K = d.choice([(1 << 55) + 3, (1 << 61) - 1, (1 << 70) + 9])
        return ['b', '/', ['b', '+', ['b', '*', e, ['n', K, 'hex']], ['n', K - 1, 'hex']], ['n', K, 'hex']]
    if r < 8:
        # floor division of a negative dividend: (0 - 7) / 2 == -4
        return ['b', '+', ['b', '+', ['b', '/', ['b', '-', ['n', 0, 'dec'], ['n', 7, 'dec']], ['n', 2, 'dec']], ['n', 4, 'dec']], e]
    return e


def _small_expr(d, target, labels, consts, w, allow_dollar_value=None):
    cands = [(n, v) for n, v in labels.items()] + [(n, v) for n, v in consts.items() if n != 'w']
    r = d.pct()
    if allow_dollar_value is not None and r < 20:
        base = ['dollar']
        bv = allow_dollar_value
    elif cands and r < 75:
        n, bv = d.choice(cands)
        base = ['id', n]
    else:
        return ['n', target, d.choice(['dec', 'hex', 'bin', 'dec'])]
    diff = target - bv
    if diff == 0:
        return base
    if diff % w == 0 and d.pct() < 40:
        k = ['b', '*', ['n', abs(diff) // w, 'dec'], ['id', 'w']] if d.bool() else ['b', '*', ['id', 'w'], ['n', abs(diff) // w, 'dec']]
    else:
        k = ['n', abs(diff), d.choice(['dec', 'hex'])]
    return ['b', '+' if diff > 0 else '-', base, k]


@st.composite
def programs(draw):
    d = D(draw)
    w = d.choice([8, 16, 32, 64])
    dw = 2 * w
    space_ops = (1 << w) // dw
    max_ops = 6 if w == 8 else d.choice([6, 12, 25])
    # ---- phase 1: skeleton (kinds + geometry)
    skel = []
    consts = {'w': w}
    if d.pct() < 50:
        for i in range(d.int(1, 2)):
            consts['k%d' % i] = d.int(0, 9)
            skel.append(['const', 'k%d' % i, ['n', consts['k%d' % i], 'dec']])
    nlabels = 0
    cur = 0
    n_ops = 0
    seg_budget = d.choice([0, 0, 1, 2]) if w > 8 else d.choice([0, 0, 1])
    popsum = 0
    seg_end_hint = []
    fault = d.choice(['overlap', 'address-too-big', 'segment-misaligned', 'reserve-misaligned', 'pad-misaligned', 'word-too-big',
                      'word-negative', 'wflip-value-too-big', 'pad-zero', 'duplicate-label', 'reserve-w-only', 'odd-word-segment', 'end-of-memory', 'end-of-memory']) if d.pct() < 22 else None
    first = True
    if fault == 'overlap' and w > 8:
        seg_budget = max(seg_budget, d.choice([1, 1, 2]))   # overlap geometries need an earlier segment above address 0
    while n_ops < max_ops:
        r = d.pct()
        if fault == 'overlap' and seg_budget > 0 and n_ops >= 1 and not first and r < 25:
            r = 95
        if d.pct() < 45:
            skel.append(['label', 'l%d' % nlabels])
            nlabels += 1
        if first or r < 50:
            skel.append(['op', None, None])
            n_ops += 1
            cur += dw
            first = False
        elif r < 72:
            skel.append(['wflip', None, None, None])
            n_ops += 1
            cur += dw
        elif r < 82 and w > 8:
            n = d.choice([1, 2, 4, 8, 2, 4, 3, 5, 6, 7, 12])
            skel.append(['pad', ['n', n, 'dec']])
            cur += ((-(cur // dw)) % n) * dw
        elif r < 90 and w > 8:
            k = d.choice([1, 2, 3, 500, 600])
            skel.append(['reserve', ['b', '*', ['n', 2 * k, 'dec'], ['id', 'w']] if d.bool() else ['n', k * dw, 'hex']])
            cur += k * dw
        elif seg_budget > 0 and n_ops >= 1:
            seg_budget -= 1
            gap_ops = 20 + d.int(0, 40) + 8 * max_ops
            a = cur + gap_ops * dw + d.choice([0, 0, (1 << 14) * w if w >= 32 else 0])
            if a + (max_ops + 60) * dw < (1 << w):
                skel.append(['segment', ['n', a, d.choice(['dec', 'hex'])]])
                cur = a
                first = True
    if d.pct() < 40:
        skel.append(['label', 'l%d' % nlabels])
        nlabels += 1
    # ---- phase 2: label addresses from the model, then fill expressions
    L = asmref.layout(w, [s if s[0] not in ('op', 'wflip') else ['op', None, None] for s in skel])
    labels = dict(L.labels)
    op_addrs = {i: a for a, i, _ in L.ops}
    lim = 1 << w
    stmts = []
    wf_pool = []
    all_targets = [a for a, _, _ in L.ops] + list(labels.values()) or [0]
    for i, s in enumerate(skel):
        if s[0] == 'op':
            addr = op_addrs[i]
            form = d.int(0, 3)
            f = j = None
            if form in (0, 1):
                tv = d.choice([d.int(0, min(lim - 1, 4 * dw)), min(lim - 1, d.choice(all_targets) + d.int(0, dw - 1)), d.int(0, lim - 1)])
                f = small_expr(d, tv, labels, consts, w, addr + dw if addr + dw < lim else None)
            if form in (0, 2):
                tv = d.choice([d.choice(all_targets), addr, min(lim - 1, addr + dw)])
                j = small_expr(d, tv, labels, consts, w, addr + dw if addr + dw < lim else None)
            stmts.append(['op', f, j])
        elif s[0] == 'wflip':
            addr = op_addrs[i]
            if wf_pool and d.pct() < 35:
                a_v, v_v, r_v = d.choice(wf_pool)
                if d.pct() < 50:
                    v_v = v_v ^ (1 << d.int(0, w - 1)) if d.bool() else (v_v | (1 << d.int(0, w - 1)))  # same r, different v
            else:
                a_v = min(lim - w, d.choice(all_targets) + d.choice([0, w, d.int(0, dw - 1)]))
                pc = d.choice([0, 1, 2, 2, 3, 4, 6])
                v_v = 0
                for _ in range(pc):
                    v_v |= 1 << d.int(0, w - 1)
                r_v = d.choice(all_targets)
                if a_v % w and d.pct() < 60:
                    # an unaligned word address and a value bit whose index shares a bit with it: a + i != a | i
                    v_v |= 1 << (a_v % w)
            wf_pool.append((a_v, v_v, r_v))
            r_e = None if d.pct() < 30 else small_expr(d, r_v, labels, consts, w)
            stmts.append(['wflip', small_expr(d, a_v, labels, consts, w), ['n', v_v, d.choice(['hex', 'bin', 'dec'])], r_e])
        else:
            stmts.append(s)
    # ---- phase 3: one injected fault
    if fault:
        idx_ops = [i for i, s in enumerate(stmts) if s[0] == 'op']
        idx_wf = [i for i, s in enumerate(stmts) if s[0] == 'wflip']
        if fault == 'overlap' and w > 8:
            later = [sg for sg in L.segments if sg['start'] > 0 and sg['stmts_end'] > sg['start']]
            kind = d.choice(['inside-first', 'inside-first', 'enclose', 'enclose', 'same-start', 'last-op']) if later else 'inside-first'
            if kind == 'inside-first':
                stmts += [['segment', ['n', d.choice([0, dw, (len(idx_ops) // 2) * dw]), 'dec']], ['op', None, None]]
            else:
                sg = d.choice(later)
                size = sg['stmts_end'] - sg['start']
                if kind == 'enclose':
                    # a later statement run that starts below an earlier segment and runs past its end
                    k = d.int(1, 4)
                    stmts += [['segment', ['n', sg['start'] - k * dw, 'hex']]]
                    if d.bool() or size > 40 * dw:
                        stmts += [['op', None, None], ['reserve', ['n', size + k * dw, 'dec']], ['op', None, None]]
                    else:
                        stmts += [['op', None, None]] * (size // dw + k + 1)
                elif kind == 'same-start':
                    stmts += [['segment', ['n', sg['start'], 'hex']], ['op', None, None]]
                else:
                    stmts += [['segment', ['n', sg['stmts_end'] - dw, 'hex']], ['op', None, None]]
        elif fault == 'address-too-big':
            stmts += [['segment', ['n', lim + d.choice([0, dw, 100 * dw]) if d.bool() else lim - d.choice([0, dw]) + dw, 'hex']], ['op', None, None]]
        elif fault == 'segment-misaligned':
            stmts += [['segment', ['n', (1 << (w - 2)) + d.int(1, w - 1), 'dec']], ['op', None, None]]
        elif fault == 'reserve-misaligned':
            stmts += [['reserve', ['n', d.int(1, w - 1) + w * d.int(0, 3), 'dec']]]
        elif fault == 'reserve-w-only':
            stmts += [['reserve', ['id', 'w']], ['op', None, None]]
        elif fault == 'end-of-memory':
            # statements that end exactly at the last bit of the 2^w-bit memory (legal) or run 1-2 ops past it (impossible)
            top = max([sg['stmts_end'] for sg in L.segments] + [0])
            k = d.int(1, 3)
            a = lim - k * dw
            extra = d.choice([0, 0, 1, 1, 2])
            j0 = ['n', 0, 'dec']
            if a >= top + 2 * dw:
                stmts += [['segment', ['n', a, 'hex']]]
                if d.bool():
                    stmts += [['op', None, j0]] * (k + extra)
                else:
                    stmts += [['op', None, j0], ['reserve', ['n', (k - 1 + extra) * dw, 'dec']]]
            else:
                fault = None
        elif fault == 'odd-word-segment' and w > 8:
            # a segment at an odd word, optionally re-aligned by an odd reserve: each half alone and both together put
            # an op at an odd word
            top = max([sg['stmts_end'] for sg in L.segments] + [0])
            a = (top // dw + 30 + d.int(0, 20)) * dw + w
            if a + 40 * dw < lim:
                stmts += [['segment', ['n', a, 'hex']], ['op', None, None]] + [['op', None, None]] * d.int(0, 2)
                if d.pct() < 65:
                    stmts += [['reserve', ['n', (2 * d.int(0, 3) + 1) * w, 'dec']]] + [['op', None, None]] * d.int(0, 2)
            else:
                fault = None
        elif fault == 'pad-misaligned':
            stmts += [['reserve', ['id', 'w']], ['pad', ['n', 2, 'dec']], ['op', None, None]]
        elif fault == 'word-too-big' and idx_ops:
            i = d.choice(idx_ops)
            big = ['n', lim + d.choice([0, 1, d.int(0, lim)]), 'hex']
            stmts[i] = ['op', big, stmts[i][2]] if d.bool() else ['op', stmts[i][1], big]
        elif fault == 'word-negative' and idx_ops:
            i = d.choice(idx_ops)
            neg = ['b', '-', ['n', 0, 'dec'], ['n', d.int(1, 300), 'dec']]
            stmts[i] = ['op', neg, stmts[i][2]] if d.bool() else ['op', stmts[i][1], neg]
        elif fault == 'wflip-value-too-big' and idx_wf:
            i = d.choice(idx_wf)
            stmts[i] = ['wflip', stmts[i][1], ['n', lim + d.int(0, 5), 'hex'], stmts[i][3]]
        elif fault == 'pad-zero':
            stmts.insert(d.int(1, len(stmts)), ['pad', ['n', 0, 'dec']])
        elif fault == 'duplicate-label' and nlabels:
            stmts.append(['label', 'l%d' % d.int(0, nlabels - 1)])
        else:
            fault = None
    return {'w': w, 'version': d.int(0, 3), 'stmts': stmts, 'fault': fault, 'style': d.choice(['min', 'min', 'full']),
            'join_labels': d.bool(), 'wrap': d.pct() < 70}


def families(tier):
    q = tier == 'quick'
    return [{'name': 'primitive-programs', 'strategy': programs, 'examples': 700 if q else 40000}]


def assemble(case, src):
    import flipjump
    from flipjump.fjm.fjm_consts import FJMVersion
    from flipjump.fjm.fjm_reader import Reader
    from flipjump.utils.exceptions import FlipJumpException
    from flipjump.utils.functions import load_debugging_labels
    tmp = engines.tmpdir()
    f = tmp / 'c02.fj'
    f.write_text(src)
    out = tmp / 'c02.fjm'
    dbg = tmp / 'c02.fjd'
    for p in (out, dbg):
        if os.path.exists(p):
            os.unlink(p)
    try:
        with contextlib.redirect_stdout(io.StringIO()), engines.hang_guard(60):
            flipjump.assemble([f], out, memory_width=case['w'], fjm_version=FJMVersion(case['version']), print_time=False,
                              warning_as_errors=False, use_stl=False, debugging_file_path=dbg)
    except FlipJumpException as e:
        return 'rejected', e, None
    except engines.EngineTimeout:
        return 'timeout', None, None
    except Exception as e:
        return 'raw', e, None
    try:
        return 'ok', Reader(out), load_debugging_labels(dbg)
    except FlipJumpException as e:
        return 'unreadable', e, None


def run_case(case):
    w = case['w']
    dw = 2 * w
    stmts = case['stmts']
    L = asmref.layout(w, stmts)
    src = asmref.render_program(stmts, case.get('style', 'min'), case.get('join_labels', False), case.get('wrap', True))
    status, obj, table = assemble(case, src)
    if status == 'unreadable':
        return Violation('c02:assembled-file-refused-by-the-reader' + (':impossible-layout-accepted' if L.verdict == 'impossible' else ''),
                         {'exc': repr(obj)[:300], 'model_verdict': L.verdict, 'model_reason': L.reason, 'src': src[:700]}, ['w=%d' % w])
    cl = ['w=%d' % w, 'verdict=' + L.verdict] + (['fault=' + case['fault']] if case.get('fault') else [])
    if status == 'timeout':
        return Discard('inconclusive: assembler wall guard')
    if status == 'raw':
        return Violation('c02:raw-exception:' + type(obj).__name__, {'exc': repr(obj)[:300], 'src': src[:500]}, cl)
    # is the space after each segment's statements certainly enough for every chain?
    verdict = L.verdict
    if verdict == 'valid':
        segs = sorted(L.segments, key=lambda s: s['start'])
        pops = {}
        for addr, a, v, r, i in L.wflips:
            si = max((s for s in L.segments if s['start'] <= addr), key=lambda s: (s['start'], s['index']))['index']
            pops[si] = pops.get(si, 0) + max(0, bin(v).count('1') - 1)
        for s in segs:
            need = s['stmts_end'] + pops.get(s['index'], 0) * dw
            nxt = min([t['start'] for t in segs if t['start'] >= s['stmts_end'] and t is not s and t['stmts_end'] > t['start']] + [1 << w])
            if need > nxt:
                verdict = 'undetermined'
    if status == 'rejected':
        if verdict == 'valid':
            return Violation('c02:valid-program-rejected', {'exc': repr(obj)[:400], 'src': src[:700]}, cl)
        cl.append('rejected')
        return Ok(cl, False)
    if verdict == 'impossible':
        return Violation('c02:impossible-layout-accepted:' + (L.reason or '?').split(':')[0].replace(' ', '-')[:40],
                         {'reason': L.reason, 'src': src[:700]}, cl)
    r = obj
    rsegs = [(s.segment_start, s.segment_start + s.segment_length) for s in r.memory_segments]

    def read_word(wa):
        v = r.memory.get(wa)
        if v is not None:
            return v
        if any(a <= wa < b for a, b in r.zeros_boundaries):
            return 0
        return None
    # op words
    for wa, exp in L.words.items():
        got = read_word(wa)
        if got != exp:
            return Violation('c02:op-word-differs', {'word': wa, 'expected': exp, 'got': got, 'src': src[:700]}, cl)
    # labels
    for name, addr in L.labels.items():
        if table.get(name) != addr:
            return Violation('c02:label-address', {'label': name, 'expected': addr, 'got': table.get(name), 'src': src[:700]}, cl)
    # reserved words
    for a, b in L.reserved:
        for wa in list(range(a // w, min(b // w, a // w + 40))) + list(range(max(a // w, b // w - 4), b // w)):
            if read_word(wa) != 0:
                return Violation('c02:reserved-word-not-zero', {'word': wa, 'got': read_word(wa), 'src': src[:700]}, cl)
    # wflip chains
    user_ops = {a for a, _, _ in L.ops}
    pad_slots = {a: si for a, si in L.pad_slots}
    aux_all = {}
    shared = False
    reused_pad = False
    for addr, a, v, rr, i in L.wflips:
        ok, info = asmref.walk_wflip(w, read_word, addr, a, v, rr)
        if not ok:
            return Violation('c02:wflip-chain:' + info['why'].replace(' ', '-')[:40], {'stmt': asmref.render_statement(stmts[i]), 'at': addr,
                                                                                    'info': {k: info[k] for k in info if k != 'ops'}, 'src': src[:700]}, cl)
        seg = max((s for s in L.segments if s['start'] <= addr), key=lambda s: (s['start'], s['index']))
        for aux in info['ops'][1:]:
            if aux in user_ops:
                return Violation('c02:wflip-aux-on-user-statement', {'aux': aux, 'stmt': asmref.render_statement(stmts[i]), 'src': src[:700]}, cl)
            if any(x <= aux < y for x, y in L.reserved):
                return Violation('c02:wflip-aux-in-reserved-space', {'aux': aux, 'src': src[:700]}, cl)
            if aux in pad_slots:
                reused_pad = True
            else:
                # the area after the statements of some segment (a chain with the same remainder may be shared
                # between segments, so it need not be this statement's own segment)
                home = [t for t in L.segments if t['start'] <= aux]
                home = max(home, key=lambda t: (t['start'], t['index'])) if home else None
                if home is None or not (aux >= home['stmts_end'] and (aux - home['stmts_end']) % dw == 0):
                    return Violation('c02:wflip-aux-outside-pad-holes-and-after-area', {'aux': aux, 'src': src[:700]}, cl)
            if aux in aux_all and aux_all[aux] != i:
                shared = True
            aux_all.setdefault(aux, i)
    # unused pad slots hold 0;0
    for a in pad_slots:
        if a not in aux_all and (read_word(a // w), read_word(a // w + 1)) != (0, 0):
            return Violation('c02:unused-pad-op-not-zero', {'at': a, 'src': src[:700]}, cl)
    # segments: everything claimed is in a reader segment, and the reader has nothing else
    claimed = []
    for s in L.segments:
        end = s['stmts_end']
        after = [x for x in aux_all if x >= s['stmts_end'] and x not in pad_slots and
                 max((t for t in L.segments if t['start'] <= x), key=lambda t: (t['start'], t['index'])) is s]
        if after:
            end = max(after) + dw
        if end > s['start']:
            claimed.append((s['start'] // w, end // w))
    for a, b in claimed:
        for wa in (a, b - 1):
            if not any(x <= wa < y for x, y in rsegs):
                return Violation('c02:claimed-word-outside-segments', {'word': wa, 'reader_segments': rsegs[:6], 'src': src[:700]}, cl)
        if not any(x == a for x, _ in rsegs) and not any(x < a <= y and any(c[1] == a for c in claimed) for x, y in rsegs):
            return Violation('c02:segment-not-placed-where-requested', {'start_word': a, 'reader_segments': rsegs[:6], 'src': src[:700]}, cl)
    for x, y in rsegs:
        for wa in (x, y - 1):
            if not any(a <= wa < b for a, b in claimed):
                return Violation('c02:image-has-unclaimed-words', {'word': wa, 'claimed': claimed[:6], 'reader_segments': rsegs[:6], 'src': src[:700]}, cl)
    multi = any(bin(v).count('1') >= 2 for _, _, v, _, _ in L.wflips)
    feats = []
    if reused_pad:
        feats.append('pad hole reused')
    if sum(1 for s in L.segments if s['stmts_end'] > s['start']) >= 2:
        feats.append('second segment')
    if L.reserved:
        feats.append('reserve')
    if shared:
        feats.append('shared chain')
    cl += feats
    if multi:
        cl.append('multi-bit wflip')
    return Ok(sorted(set(cl)), multi and bool(feats))
