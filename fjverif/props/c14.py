"""C14 - every assembly failure is a specific library diagnostic."""
import contextlib
import io
import os
import re

from hypothesis import strategies as st

from fjverif import engines, asmref, macrogen
from fjverif.imagegen import D
from fjverif.props import c02, c03
from fjverif.runner import Ok, Violation, Discard

ID = 'C14'
LEVEL = 'exploration'
RULE = ('(a) a valid generated program (primitive programs of C02, macro programs of C03) plus exactly ONE injected fault of '
        'a named class: bad character, unbalanced brace, reserved word as identifier, a<b<c, unknown macro / wrong arity, '
        'duplicate macro / label / constant, parameter = constant, unknown label, bad label swap, segment/reserve inside a '
        'macro or misaligned, overlap, out-of-range address or value, pad 0, division / modulo by zero, negative shift, '
        'negative exponent at each evaluation stage (literal folding, constant definition, via a constant, parameter '
        'substitution, rep count, rep argument, label resolution), unbounded recursion (plain and through rep), empty '
        'program, missing first op, too many leading dots, 5000-digit literal.  (b) token- and byte-level mutations of valid '
        'programs.  Oracle: flipjump.assemble returns or raises a FlipJumpException subclass whose message is not the '
        '"Unknown exception ... please report this bug" catch-all; for (a) the message names the construct (the offending '
        'identifier, a class keyword, or the line of the fault); afterwards the output path is absent or does not load as a '
        'program.  non-trivial = the input gets past the lexer and the assembly fails')
ASSUMPTIONS = ['sizes are bounded (pad <= 4096, rep <= 256, shifts <= 4096, ** exponent <= 64): resource exhaustion is not the question',
               'an 8 s wall guard reports inconclusive']

CATCH_ALL = 'Unknown exception'


def fault_snippets(w):
    """name -> (lines to add, placement 'top'|'end'|'only', needles)"""
    big = 1 << w
    f = {
        'bad-char': (['`;'], 'end', ['lexing error']),
        'bad-char-2': ([';1 ! 2'], 'end', ['lexing error']),
        'unbalanced-open': (['def zz_open {', ';'], 'end', ['syntax error', 'missing }']),
        'unbalanced-close': (['}'], 'end', ['syntax error']),
        'reserved-word-label': (['def:'], 'end', ['syntax error']),
        'reserved-word-const': (['rep = 3'], 'end', ['syntax error']),
        'nonassoc-chain': ([';1 < 2 < 3'], 'end', ['syntax error']),
        'unknown-macro': (['zz_unknown 1, 2'], 'end', ['zz_unknown']),
        'wrong-arity': (['def zz_m a, b {', ';a + b', '}', 'zz_m 1'], 'end', ['zz_m']),
        'dup-macro': (['def zz_q {', ';', '}', 'def zz_q {', ';', '}'], 'end', ['zz_q']),
        'dup-label': (['zz_l:', ';', 'zz_l:'], 'end', ['zz_l']),
        'dup-const': (['zz_c = 1', 'zz_c = 2'], 'top', ['zz_c']),
        'param-is-const': (['zz_c = 1', 'def zz_m zz_c {', ';zz_c', '}'], 'top', ['zz_c']),
        'label-is-const': (['zz_c = 1', 'zz_c:'], 'end', ['zz_c']),
        'unknown-label': ([';zz_unknown_label'], 'end', ['zz_unknown_label']),
        'bad-label-swap': (['def zz_m p {', 'p:', ';', '}', 'zz_m 5'], 'end', ['label swap', 'zz_m']),
        'bad-label-swap:expression': (['def zz_m p {', 'p:', ';p', '}', 'zz_x:', 'zz_m zz_x + 1'], 'end', ['label swap', 'zz_m']),
        'bad-label-swap:expression-of-parameter': (['def zz_m p {', 'p:', ';p', '}', 'def zz_o q {', 'zz_m q * 2', '}', 'zz_x:', 'zz_o zz_x'], 'end', ['label swap', 'zz_m']),
        'segment-in-macro': (['def zz_m {', 'segment 0x1000', '}'], 'end', ['inside a macro', 'zz_m']),
        'reserve-in-macro': (['def zz_m {', 'reserve 2*w', '}'], 'end', ['inside a macro', 'zz_m']),
        'segment-misaligned': (['segment 7'], 'end', ['aligned']),
        'reserve-misaligned': (['reserve 5'], 'end', ['aligned']),
        'overlap': (['segment 0', ';'], 'end', ['overlap', 'segment']),
        'address-out-of-range': (['segment %d' % big, ';'], 'end', ['space', 'segment', 'address']),
        'flip-too-big': (['%d;' % big], 'end', ['%d' % big, 'fit', 'range', 'bits']),
        'jump-too-big': ([';%d' % (big + 5)], 'end', ['%d' % (big + 5), 'fit', 'range', 'bits']),
        'flip-negative': (['0 - 1;'], 'end', ['-1', 'fit', 'range', 'negative', 'bits']),
        'wflip-value-too-big': (['wflip 0, %d' % big], 'end', ['space', 'fit', 'range', 'bits', '%d' % big]),
        'wflip-address-negative': (['wflip 0 - w, 1'], 'end', ['fit', 'range', 'negative', 'bits', 'space']),
        'pad-zero': (['pad 0'], 'end', ['pad']),
        'too-many-dots': ([';....zz_x'], 'end', ['dots']),
        'recursion': (['def zz_r {', 'zz_r', '}', 'zz_r'], 'end', ['recursi', 'zz_r']),
        'recursion-through-rep': (['def zz_r {', 'rep(1, i) zz_r', '}', 'zz_r'], 'end', ['recursi', 'zz_r']),
        'mutual-recursion': (['def zz_r {', 'zz_s', '}', 'def zz_s {', 'rep(2, i) zz_r', '}', 'zz_s'], 'end', ['recursi', 'zz_r']),
        'truncated-expression': ([';(1 + '], 'eof', ['syntax error', 'end of file']),
        'truncated-rep': (['rep(3, i) '], 'eof', ['syntax error', 'end of file']),
        'truncated-wflip': (['wflip 1,'], 'eof', ['syntax error', 'end of file']),
        'truncated-def': (['def zz_t a, b'], 'eof', ['syntax error', 'end of file']),
        'empty-program': ([''], 'only', ['first op', 'empty', 'address 0']),
        'no-first-op': (['segment 0x1000', ';'], 'only', ['first op', 'address 0']),
        'internal-label-redeclared': ([';', 'segment 16*w', ';', 'ns _ {', 'wflip_area_start_0:', '}'], 'only', ['wflip_area_start_0']),
        'internal-label-predeclared': ([';', 'ns _ {', 'wflip_area_start_0:', '}', ';', 'segment 16*w', ';'], 'only', ['wflip_area_start_0']),
        'huge-literal': ([';' + '9' * 5000], 'end', ['literal', 'number', 'digit', 'too', 'long', 'big', 'fit', 'bits', 'range']),
    }
    # one label statement (one source position) that two expansions resolve to the same name
    f['dup-label:macro-parameter-twice'] = (['def zz_m l {', 'l:', ';', '}', 'zz_m zz_dup', 'zz_m zz_dup'], 'end', ['zz_dup'])
    f['dup-label:macro-parameter-rep'] = (['def zz_m l {', 'l:', ';', '}', 'rep(2, zz_i) zz_m zz_dup'], 'end', ['zz_dup'])
    f['dup-label:macro-parameter-in-macro'] = (['def zz_m l {', 'l:', ';', '}', 'def zz_o @ zz_x {', 'zz_m zz_x', 'zz_m zz_x', '}', 'zz_o'], 'end', ['zz_x'])
    f['dup-label:global-from-macro-twice'] = (['def zz_m {', '..zz_g:', ';', '}', 'zz_m', 'zz_m'], 'end', ['zz_g'])
    # overlap geometries: the later segment encloses / starts with / ends inside / lies in the reserved tail of the earlier one
    on = ['overlap', 'segment']
    f['overlap:later-encloses-earlier'] = (['segment 1024*w', ';', 'segment 512*w', ';', 'reserve 1024*w'], 'end', on)
    f['overlap:later-encloses-earlier-by-ops'] = (['segment 1024*w', ';', 'segment 1020*w', 'rep(6, zz_i) zz_i;'], 'end', on)
    f['overlap:same-start'] = (['segment 1024*w', ';', 'segment 1024*w', ';'], 'end', on)
    f['overlap:later-ends-inside'] = (['segment 1024*w', ';', ';', ';', 'segment 1022*w', ';', ';'], 'end', on)
    f['overlap:later-in-reserved-tail'] = (['segment 1024*w', ';', 'reserve 64*w', 'segment 1040*w', ';'], 'end', on)
    f['overlap:reserved-tail-over-earlier'] = (['segment 1024*w', ';', 'segment 1000*w', ';', 'reserve 64*w'], 'end', on)
    # characters that python's str.split() / str.strip() treat as blank but the lexer does not, as the last thing in the file
    for ch in ('\x0b', '\x0c', '\x1c', '\x1f'):
        f['bad-char-%02x-last' % ord(ch)] = ([ch], 'eof', ['lexing error'])
        f['bad-char-%02x-then-blank-lines' % ord(ch)] = ([ch + ' ', '', ' '], 'end', ['lexing error'])
    for ch in ('\x85', '\xa0', '\u2003', '\u3000'):
        f['bad-char-u%04x-last:utf8' % ord(ch)] = ([ch], 'eof', ['lexing error'])
    # an empty segment far beyond the memory that only holds a label (nothing is written for it)
    f['huge-value:empty-segment-with-label'] = (['segment (1 << 20000)', 'zz_far:'], 'end', ['space', 'fit', 'range', 'memory', 'segment'])
    f['empty-segment-just-beyond-memory'] = (['segment %d' % (big + 2 * w), 'zz_far:'], 'end', ['space', 'fit', 'range', 'memory', 'segment'])
    # several hundred chained operators that can only be evaluated late (label operand) / early (literals)
    deep_needles = ['nested', 'recursion', 'deep', 'expression']
    f['deep-expression:label'] = (['zz_d:', ';zz_d' + ' + 1' * 700], 'end', deep_needles)
    f['deep-expression:parens'] = ([';' + '(' * 600 + 'zz_d2' + ')' * 600, 'zz_d2:'], 'end', deep_needles)
    f['non-utf8-source-bytes'] = (['\xff\xfe;'], 'end', ['utf', 'decode', 'encod', 'byte'])
    # values far beyond any word (no python int -> decimal string conversion may be attempted on them: 4300-digit limit)
    huge = '(1 << 20000)'
    hn = ['fit', 'range', 'bits', 'space', 'big', 'large', 'evaluate', 'align', 'data words must be', 'memory can hold']
    f['huge-value:flip'] = ([huge + ';'], 'end', hn)
    f['huge-value:jump'] = ([';' + huge], 'end', hn)
    f['huge-value:negative-flip'] = (['0 - ' + huge + ';'], 'end', hn + ['negative'])
    f['huge-value:via-label'] = ([';zz_l * ' + huge + ' + ' + huge, 'zz_l:'], 'end', hn + ['zz_l'])
    f['huge-value:wflip-value'] = (['wflip 0, ' + huge], 'end', hn)
    f['huge-value:wflip-address'] = (['wflip ' + huge + ', 1'], 'end', hn)
    f['huge-value:pad'] = (['pad ' + huge], 'end', hn + ['pad'])
    f['huge-value:reserve'] = (['reserve ' + huge], 'end', hn + ['reserve'])
    f['huge-value:segment'] = (['segment ' + huge, ';'], 'end', hn + ['segment'])
    f['huge-value:negative-pad'] = (['pad 0 - ' + huge], 'end', hn + ['pad', 'positive', 'negative'])
    f['huge-value:pad-at-unaligned-huge-address'] = (['segment ' + huge + ' + w', 'pad 2'], 'end', hn + ['pad', 'segment'])
    f['huge-value:negative-empty-segment-with-label'] = (['segment 0 - ' + huge, 'zz_neg:'], 'end', hn + ['memory', 'segment', 'negative'])
    f['negative-empty-segment-with-label'] = (['segment 0 - 4*w', 'zz_neg:'], 'end', ['space', 'fit', 'range', 'memory', 'segment', 'negative'])
    f['huge-value:macro-arg'] = (['def zz_m p {', ';p', '}', 'zz_m ' + huge], 'end', hn + ['zz_m'])
    f['huge-value:const'] = (['zz_c = ' + huge, ';zz_c'], 'top', hn + ['zz_c'])
    # preprocessor-stage errors raised while other expansions are on the stack (the error reporter walks the stack):
    # below a nested macro, a constant-counted rep, a rep whose count depends on labels declared earlier, and a namespace
    inner = {'unknown-macro': (['zz_unknown 1, 2'], ['zz_unknown']),
             'wrong-arity': (['zz_m 1'], ['zz_m']),
             'dup-label': (['zz_l:', ';', 'zz_l:'], ['zz_l']),
             'unknown-label': ([';zz_unknown_label'], ['zz_unknown_label']),
             'bad-label-swap': (['zz_p 5'], ['label swap', 'zz_p'])}
    pre = ['def zz_m a, b {', ';a + b', '}', 'def zz_p p {', 'p:', ';', '}']
    for iname, (ilines, ineedles) in inner.items():
        body = pre + ['def zz_w {'] + ilines + ['}']
        f[iname + ':below-nested-macros'] = (body + ['def zz_v {', 'zz_w', '}', 'def zz_u {', 'zz_v', '}', 'zz_u'], 'end', ineedles)
        f[iname + ':below-const-rep'] = (body + ['rep(2, zz_i) zz_w'], 'end', ineedles)
        f[iname + ':below-label-counted-rep'] = (['zz_a:', ';', 'zz_b:'] + body + ['rep((zz_b - zz_a) / (2 * w), zz_i) zz_w'], 'end', ineedles)
        f[iname + ':below-label-counted-rep-in-macro'] = (['zz_a:', ';', ';', 'zz_b:'] + body + ['def zz_o n {', 'rep(n / (2 * w), zz_i) zz_w', '}', 'zz_o zz_b - zz_a'], 'end', ineedles)
        f[iname + ':in-namespace'] = (pre + ['ns zz_ns {', 'def zz_w {'] + ilines + ['}', '}', 'zz_ns.zz_w'], 'end', ineedles)
    for opname, bad in (('div-zero', '5 / %s'), ('mod-zero', '5 %% %s'), ('neg-shift', '1 << (%s - 1)'), ('neg-exponent', '2 ** (%s - 1)')):
        needles = ['math', 'division', 'zero', 'negative', 'exponent', 'shift', 'evaluate']
        f[opname + ':literal'] = ([';' + bad % '0'], 'end', needles)
        f[opname + ':const-def'] = (['zz_c = ' + bad % '0'], 'top', needles + ['zz_c'])
        f[opname + ':via-const'] = (['zz_z = 0', ';' + bad % 'zz_z'], 'top', needles)
        f[opname + ':param'] = (['def zz_m p {', ';' + bad % 'p', '}', 'zz_m 0'], 'end', needles + ['zz_m'])
        f[opname + ':rep-count'] = (['def zz_m {', ';', '}', 'rep(%s, i) zz_m' % (bad % '0')], 'end', needles + ['rep', 'zz_m'])
        f[opname + ':rep-arg'] = (['def zz_m p {', ';p', '}', 'rep(2, i) zz_m %s' % (bad % 'i')], 'end', needles + ['rep', 'zz_m'])
        f[opname + ':label'] = ([';' + bad % '(zz_l - zz_l)', 'zz_l:'], 'end', needles + ['zz_l'])
        f[opname + ':pad'] = (['pad ' + bad % '0'], 'end', needles + ['pad'])
        f[opname + ':segment'] = (['segment ' + bad % '0'], 'end', needles + ['segment'])
    return f


FAULT_NAMES = sorted(fault_snippets(64))


@st.composite
def base_program(draw):
    d = D(draw)
    if d.pct() < 55:
        c = draw(c02.programs())
        if not c.get('fault'):
            src = asmref.render_program(c['stmts'], c['style'], c['join_labels'], c['wrap'])
            return {'w': c['w'], 'version': c['version'], 'src': src}
    c = draw(c03.macro_programs())
    src, _ = macrogen.render(c['items'], c['spell_seed'], c['style'])
    return {'w': c['w'], 'version': d.int(0, 3), 'src': src}


@st.composite
def fault_cases(draw):
    base = draw(base_program())
    d = D(draw)
    base['kind'] = 'fault'
    base['fault'] = d.choice(FAULT_NAMES)
    return base


TOKENS = [';', ':', ',', '(', ')', '{', '}', '+', '-', '*', '/', '%', '>>', '<', '>', '==', '?', '$', '@', '#', '~', '.', '..',
          'def', 'rep', 'ns', 'wflip', 'pad', 'segment', 'reserve', 'w', 'a', 'x', 'l0', '0', '1', '2', '7', '64', '0x10', "'a'", '"s"', '\n', ' ', '=', '&&', '||', '^', '|', '&', '!=', '<=', '>=']


@st.composite
def mutation_cases(draw):
    base = draw(base_program())
    d = D(draw)
    muts = []
    for _ in range(d.choice([1, 1, 1, 2, 3])):
        r = d.pct()
        if r < 30:
            muts.append(['del-token', d.int(0, 10000)])
        elif r < 50:
            muts.append(['dup-token', d.int(0, 10000)])
        elif r < 65:
            muts.append(['swap-tokens', d.int(0, 10000)])
        elif r < 85:
            muts.append(['replace-token', d.int(0, 10000), d.choice(TOKENS)])
        elif r < 93:
            muts.append(['insert-byte', d.int(0, 100000), d.choice([0, 9, 10, 13, 33, 34, 39, 92, 96, 123, 125, 127, 200, d.int(0, 255)])])
        else:
            muts.append(['del-bytes', d.int(0, 100000), d.int(1, 5)])
    base['kind'] = 'mutation'
    base['mutations'] = muts
    return base


def families(tier):
    q = tier == 'quick'
    return [{'name': 'constructed-faults', 'strategy': fault_cases, 'examples': 400 if q else 25000},
            {'name': 'mutations', 'strategy': mutation_cases, 'examples': 400 if q else 30000}]


def enumerations(tier):
    """every fault class at least once on a fixed tiny base, at every width"""
    def cases(shard, nshards):
        k = 0
        for w in (8, 16, 32, 64):
            for name in FAULT_NAMES:
                k += 1
                if k % nshards != shard:
                    continue
                yield {'kind': 'fault', 'w': w, 'version': k % 4, 'src': ';\nzz_base: ;zz_base\n', 'fault': name}
    return [{'name': 'every-fault-class-x-width', 'cases': cases, 'exhaustive': True}]


TOKEN_RE = re.compile(r'[A-Za-z_][A-Za-z_0-9]*|0[xX][0-9a-fA-F]+|[0-9]+|<<|>>|==|!=|<=|>=|&&|\|\||\*\*|\n|\s+|.', re.S)


def apply_mutations(src, muts):
    for m in muts:
        toks = TOKEN_RE.findall(src)
        idx = [i for i, t in enumerate(toks) if not t.isspace() or t == '\n']
        if m[0] in ('del-token', 'dup-token', 'swap-tokens', 'replace-token') and idx:
            i = idx[m[1] % len(idx)]
            if m[0] == 'del-token':
                toks[i] = ''
            elif m[0] == 'dup-token':
                toks[i] = toks[i] + ' ' + toks[i]
            elif m[0] == 'swap-tokens':
                j = idx[(m[1] + 1) % len(idx)]
                toks[i], toks[j] = toks[j], toks[i]
            else:
                toks[i] = m[2]
            src = ''.join(toks)
        elif m[0] == 'insert-byte':
            p = m[1] % (len(src) + 1)
            src = src[:p] + chr(m[2]) + src[p:]
        elif m[0] == 'del-bytes' and src:
            p = m[1] % len(src)
            src = src[:p] + src[p + m[2]:]
    return src


def assemble(src, w, version, encoding='latin-1', stats=False, debug_file=False):
    import flipjump
    from flipjump.fjm.fjm_consts import FJMVersion
    from flipjump.utils.exceptions import FlipJumpException
    tmp = engines.tmpdir()
    f = tmp / 'c14.fj'
    # generated sources are ascii; a character 128..255 (byte mutations, the non-utf8 fault) is written as that raw byte
    f.write_bytes(src.encode(encoding, 'replace'))
    out = tmp / 'c14.fjm'
    if os.path.exists(out):
        os.unlink(out)
    try:
        with contextlib.redirect_stdout(io.StringIO()), engines.hang_guard(8):
            flipjump.assemble([f], out, memory_width=w, fjm_version=FJMVersion(version), print_time=False,
                              warning_as_errors=False, use_stl=False, show_statistics=stats,
                              debugging_file_path=(tmp / 'c14.fjd') if debug_file else None)
    except FlipJumpException as e:
        return 'fj', e, out
    except engines.EngineTimeout:
        return 'timeout', None, out
    except RecursionError as e:
        return 'raw', e, out
    except Exception as e:
        return 'raw', e, out
    return 'ok', None, out


def leftover_loads(out):
    """does a failed assembly leave a file that loads as a program?"""
    if not os.path.exists(out):
        return False
    from flipjump.fjm.fjm_reader import Reader
    from flipjump.utils.exceptions import FlipJumpException
    try:
        # the Reader is the loader: a file it accepts is a loaded program image (whether it also holds a first op is asked
        # separately by the run entry point; the 'no first op' failure is exactly the one whose image has none)
        Reader(out)
        return True
    except FlipJumpException:
        return False
    except Exception:
        return False


def root_cause(exc):
    c = exc.__cause__
    tb = c.__traceback__ if c is not None else None
    where = '?'
    while tb is not None:
        fn = tb.tb_frame.f_code.co_filename
        if 'flipjump' in fn:
            where = '%s.%s' % (os.path.basename(fn)[:-3], tb.tb_frame.f_code.co_name)
        tb = tb.tb_next
    return type(c).__name__ if c is not None else 'None', where


def run_case(case):
    w = case['w']
    src = case['src']
    cl = ['family=' + case['kind'], 'w=%d' % w]
    fault_line = None
    needles = None
    if case['kind'] == 'fault':
        if case['fault'] not in ('empty-program', 'no-first-op'):
            st0, e0, _ = assemble(src, w, case['version'])
            if st0 != 'ok':
                return Discard('base program is not valid by itself')
        lines, place, needles = fault_snippets(w)[case['fault']]
        base_lines = src.rstrip('\n').split('\n')
        if place == 'only':
            new = list(lines)
            fault_line = 1
        elif place == 'top':
            new = list(lines) + base_lines
            fault_line = 1
        else:
            new = base_lines + list(lines)
            fault_line = len(base_lines) + 1
        n_fault_lines = len(lines)
        src = '\n'.join(new) + ('' if place == 'eof' else '\n')
        cl.append('fault=' + case['fault'].split(':')[0])
        if ':' in case['fault']:
            cl.append('stage=' + case['fault'].split(':')[1])
    else:
        src = apply_mutations(src, case['mutations'])
    # the macro-usage statistics option (text fallback without plotly) on a third of the cases: it runs inside the pipeline
    stats = (len(src) + w + case['version']) % 3 == 0
    debug_file = (len(src) + case['version']) % 2 == 0   # the debugging-labels file is written at the very end of the pipeline
    status, exc, out = assemble(src, w, case['version'], 'utf-8' if str(case.get('fault', '')).endswith(':utf8') else 'latin-1', stats, debug_file)
    if stats:
        cl.append('show_statistics')
    if status == 'timeout':
        return Discard('inconclusive: assembler wall guard')
    if status == 'raw':
        return Violation('c14:raw-exception:%s' % type(exc).__name__, {'exc': repr(exc)[:300], 'src': src[-600:]}, cl)
    if status == 'ok':
        if case['kind'] == 'fault' and case['fault'].startswith('deep-expression'):
            # a valid program whenever the interpreter's recursion limit happens to be enough: only HOW it fails is checked
            return Ok(cl + ['deep expression assembled'], False)
        if case['kind'] == 'fault':
            return Violation('c14:faulty-program-accepted:' + case['fault'], {'src': src[-400:]}, cl)
        cl.append('mutant still valid')
        return Ok(cl, False)
    msg = str(exc)
    if CATCH_ALL in msg:
        ctype, where = root_cause(exc)
        return Violation('c14:catchall:%s@%s' % (ctype, where), {'cause': repr(exc.__cause__)[:300], 'fault': case.get('fault'), 'src': src[-500:]}, cl)
    if leftover_loads(out):
        return Violation('c14:failed-assembly-leaves-a-loadable-file', {'exc': msg[:200], 'src': src[-400:]}, cl)
    if os.path.exists(out):
        cl.append('leftover file (not loadable)')
    cl.append('exc=' + type(exc).__name__)
    if needles is not None:
        low = msg.lower()
        line_hits = any(('line %d)' % ln) in low or (':l%d' % ln) in low or ('line %d' % ln) in low
                        for ln in range(fault_line, fault_line + n_fault_lines))
        if not (any(n.lower() in low for n in needles) or line_hits):
            return Violation('c14:message-does-not-name-the-construct:' + case['fault'],
                             {'message': msg[:500], 'needles': needles, 'fault_lines': [fault_line, fault_line + n_fault_lines - 1]}, cl)
    lexed = 'Lexing Error' not in msg
    return Ok(cl, lexed)
