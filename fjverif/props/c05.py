"""C05 - bit library macros compute their documented function for every operand."""
import itertools
import os

from hypothesis import strategies as st

from fjverif import bench as benchmod
from fjverif import stlspec_bit as S
from fjverif.imagegen import D
from fjverif.runner import Ok, Violation, Discard

ID = 'C05'
LEVEL = 'exploration'
RULE = ('(sweeps) for every documented bit data macro overload (memory, logic incl. exact/zero variants, if/if0/if1/cmp, '
        'shifts and rotates, inc1/inc/dec/neg/add1/add/sub, mul10/mul/mul_loop, div10, div/idiv and their loop variants) one bench '
        'program per (macro, n, constants, w in 64/32/16): operands are poked and EXHAUSTIVELY enumerated when they total <= 10 '
        'bits (quick) / <= 16 bits (thorough), otherwise boundary-biased; a guard variable and a trailing bit.cmp probe detect '
        'stray writes.  (compositions) generated sequences of 2-10 macro applications over shared variables on drawn initial '
        'states.  Oracle = the doc-comment formula on Python ints (name-consistent reading where a doc line contradicts the '
        'name): every declared variable, the branch marker, halting by Looping.  non-trivial = operands not all zero (and for '
        'compositions >= 3 macros)')
ASSUMPTIONS = ['formulas transcribed from the doc comments in flipjump/stl/bit/*.fj (fjverif/stlspec_bit.py)',
               'documented preconditions respected: mul_loop dst != src, times <= n, unsafe_mov dst != src, b = 0 => "do nothing"',
               'the native engine is the vehicle (C01/C07)']

SPEC_BY_NAME = {s['name']: s for s in S.SPECS}


def const_choices(kind, n, m):
    if kind == 'hex':
        return [0, 1, 7, 8, 15]
    if kind == 'vec':
        return [0, 1, S.M(n), 0x8 << (4 * (n - 1)), 0x5A5A5A5A5A & S.M(n)]
    if kind == 'posconst':
        # the constant is taken to fit the destination (n_const <= n): larger constants are outside the documented use
        return sorted({c for c in (0, 1, 15, 16, 9, S.M(n), (S.M(n) + 1) >> 1, 0x100, 0xF0, 0x10 << (4 * (n - 1))) if c <= S.M(n)})
    if kind == 'shift':
        return [k for k in range(0, n + 1) if (m or 0) + k <= n]
    if kind == 'times':
        return sorted(t for t in {0, 1, 2, n // 2, max(0, n - 1), n} if t <= n)
    if kind == 'flags16':
        return [0, 0xFFFF, 0x0001, 0x8000, 0xA5C3, 0x00FF]
    raise ValueError(kind)


def variants(tier):
    """every (spec, n, m, C, K, w) bench program"""
    out = []
    for s in S.SPECS:
        for n in s['ns']:
            for m in s['ms']:
                if m is not None and m > n:
                    continue
                cs = const_choices(s['consts']['C'], n, m) if 'C' in s['consts'] else [None]
                ks = const_choices(s['consts']['K'], n, m) if 'K' in s['consts'] else [None]
                if tier == 'quick':
                    cs, ks = cs[:3], ks[:3]
                for C in cs:
                    for K in ks:
                        for w in (64, 32, 16):
                            if w != 64 and tier == 'quick' and (n > 3 or C not in (None, cs[0]) or K not in (None, ks[0])):
                                continue
                            out.append({'spec': s['name'], 'n': n, 'm': m, 'C': C, 'K': K, 'w': w})
    return out


def var_sizes(s, n, m):
    return {v: f(n, m) for v, f in s['vars'].items()}


def build_source(v):
    s = SPEC_BY_NAME[v['spec']]
    n, m = v['n'], v['m']
    call = s['call'].format(n=n, m=m, C=v['C'], K=v['K'], L0='L0', L1='L1', L2='L2')
    sizes = var_sizes(s, n, m)
    lines = ['stl.startup', 'again:', call, "stl.output_char 'F'", ';done']
    for i in range(3):
        lines += ['L%d:' % i, "stl.output_char '%d'" % i, ';done']
    lines += ['done:', 'bit.cmp 4, pa, pb, plt, peq, pgt',
              'plt:', "stl.output_char '<'", ';halt', 'peq:', "stl.output_char '='", ';halt', 'pgt:', "stl.output_char '>'", ';halt',
              'halt:', 'stl.loop', 'guardA:', 'bit.vec 3']
    for name, size in sizes.items():
        lines += ['%s:' % name, 'bit.vec %d' % size, 'g_%s:' % name, 'bit.vec 2']
    lines += ['pa:', 'bit.vec 4, 0x4', 'pb:', 'bit.vec 4, 0x5']
    return '\n'.join(lines) + '\n', sizes


_benches = {}


def get_bench(v):
    key = (v['spec'], v['n'], v['m'], v['C'], v['K'], v['w'])
    if key not in _benches:
        src, sizes = build_source(v)
        _benches[key] = (benchmod.Bench(src, v['w']), sizes)
        if len(_benches) > 40:
            _benches.pop(next(iter(_benches)))
    return _benches[key]


def run_tuple(b, sizes, v, values, mem=None, start=None):
    """values: dict var -> initial value.  -> None or (what, detail).
    mem/start: re-execute the same call site on a memory that already ran it (stale macro-local state shows)"""
    s = SPEC_BY_NAME[v['spec']]
    m_ = b.fresh() if mem is None else mem
    for name, size in sizes.items():
        b.set(m_, name, size, values[name], 1)
    r = b.run(m_, start=start)
    upd = s['f'](dict(values), v['n'], v['m'], v['C'], v['K'])
    br = upd.get('_branch', 'fall')
    exp_out = ('F' if br == 'fall' else str(br)) + '<'
    got_out = r['out'].decode('latin-1')
    if r['cause'] != 'Looping':
        return 'termination', {'cause': r['cause'], 'fault': r['fault'], 'out': got_out}
    if got_out != exp_out:
        if got_out[:1] != exp_out[:1]:
            return 'branch', {'got': got_out, 'expected': exp_out}
        return 'probe-compare', {'got': got_out, 'expected': exp_out}
    for name, size in sizes.items():
        exp = upd.get(name, values[name])
        got = b.get(m_, name, size, 1)
        if got != exp:
            kind = 'destination' if name in upd else 'source-or-bystander-changed'
            return kind + ':' + name, {'var': name, 'got': got, 'expected': exp}
        for i in range(size):
            if b.cell_raw(m_, name, i) > 1:
                return 'stray-bits:' + name, {'var': name, 'cell': i, 'raw': b.cell_raw(m_, name, i)}
    if b.get(m_, 'guardA', 3, 1) != 0 or any(b.get(m_, 'g_' + nm, 2, 1) != 0 for nm in sizes):
        return 'stray-write-next-to-variable', {'guards': [b.get(m_, 'g_' + nm, 2, 1) for nm in sizes]}
    return None


def boundary_values(size):
    mx = S.M(size)
    vals = {0, 1, 2, 3, 5, 9, 10, 11, 99, 100, mx, mx - 1, (mx + 1) >> 1, ((mx + 1) >> 1) - 1, ((mx + 1) >> 1) + 1, 0x55555 & mx, 0xAAAAA & mx}
    for k in range(1, size, 3):
        vals |= {1 << k, (1 << k) - 1, (1 << k) + 1}
    return sorted(x for x in vals if 0 <= x <= mx)


def enumerations(tier):
    limit_bits = 10 if tier == 'quick' else 16

    def cases(shard, nshards):
        k = 0
        for v in variants(tier):
            s = SPEC_BY_NAME[v['spec']]
            sizes = var_sizes(s, v['n'], v['m'])
            bits = sum(sizes.values())
            k += 1
            if k % nshards != shard:
                continue
            if bits <= limit_bits:
                yield dict(v, kind='sweep', mode='exhaustive', chain=150 if tier == 'quick' else 1500)
            else:
                yield dict(v, kind='sweep', mode='boundary', chain=150 if tier == 'quick' else 1500)
    return [{'name': 'operand-sweeps', 'cases': cases, 'exhaustive': False}]


def sweep_tuples(v, sizes):
    names = list(sizes)
    if v['mode'] == 'exhaustive' and sum(sizes.values()) <= 16:
        ranges = [range(S.M(sizes[n]) + 1) for n in names]
    else:
        ranges = [boundary_values(sizes[n]) for n in names]
        total = 1
        for r in ranges:
            total *= len(r)
        while total > 6000:
            i = max(range(len(ranges)), key=lambda j: len(ranges[j]))
            ranges[i] = ranges[i][::2]
            total = 1
            for r in ranges:
                total *= len(r)
    for combo in itertools.product(*ranges):
        yield dict(zip(names, combo))


def run_sweep(v):
    try:
        b, sizes = get_bench(v)
    except benchmod.BenchError as e:
        if v['w'] == 16 and ('Not enough space' in str(e) or "doesn't fit in a 16-bits" in str(e)):
            return Discard('program does not fit the 2^16-bit address space')
        return Violation('c05:%s:bench-program-does-not-assemble' % v['spec'], {'error': str(e)[:600]}, [])
    cl = ['macro=' + v['spec'], 'w=%d' % v['w'], 'mode=' + v['mode']]
    count = 0
    nz = 0
    for values in sweep_tuples(v, sizes):
        count += 1
        if any(values.values()):
            nz += 1
        bad = run_tuple(b, sizes, v, values)
        if bad:
            what, detail = bad
            key = 'c05:%s:%s' % (v['spec'], what)
            if v['spec'] in ('bit.idiv', 'bit.idiv_loop') and values.get('b') == 0 and S.sgn(values['a'], v['n']) < 0:
                key = 'c05:bit.idiv*:b0:negative-a:q-r-negated'
            return Violation(key, {'variant': {k: v[k] for k in ('spec', 'n', 'm', 'C', 'K', 'w')}, 'operands': values, **detail}, cl)
    bad = run_chain(b, sizes, v, 'c05')
    if bad:
        return Violation(bad[0], bad[1], cl + ['re-execution chain'])
    cl.append('re-execution chain')
    return Ok(cl, nz > 0, evals=count, distinct=nz, sample={'variant': {k: v[k] for k in ('spec', 'n', 'm', 'C', 'K', 'w')}, 'tuples': count})


def chain_tuples(v, sizes, limit, sweep=None):
    """a fixed pseudo-random walk over the sweep's operand tuples (a pure function of the variant)"""
    import random
    import zlib
    tuples = list((sweep or sweep_tuples)(v, sizes))
    rnd = random.Random(zlib.crc32(repr(sorted((k, str(x)) for k, x in v.items() if k not in ('kind', 'mode', 'chain'))).encode()))
    rnd.shuffle(tuples)
    return tuples[:limit]


def run_chain(b, sizes, v, tag, run_tuple=None, sweep=None):
    """the same call site executed again and again on ONE memory with new operands each time: a macro used in a loop.
    The first execution starts at address 0 (startup), the later ones at the label in front of the call."""
    limit = v.get('chain', 150)
    run_tuple = run_tuple or globals()['run_tuple']
    mem = b.fresh()
    prev = None
    for i, values in enumerate(chain_tuples(v, sizes, limit, sweep)):
        bad = run_tuple(b, sizes, v, values, mem=mem, start=None if i == 0 else 'again')
        if bad:
            what, detail = bad
            return ('%s:%s:re-execution:%s' % (tag, v['spec'], what),
                    {'variant': {k: v[k] for k in ('spec', 'n', 'm', 'C', 'K', 'w')}, 'execution_index': i,
                     'previous_operands': prev, 'operands': values, **detail})
        prev = values
    return None


# ------------------------------------------------------------------ compositions

COMPOSABLE = [s for s in S.SPECS if '{L' not in s['call'] and '/1' not in s['name'] and 'same' not in s['name'] and 'squaring' not in s['name']
              and 'dbit' not in s['call'] and s['name'] not in ('bit.inc1', 'bit.add1', 'bit.unsafe_mov')]


@st.composite
def compositions(draw):
    d = D(draw)
    n = d.choice([2, 3, 4, 4, 6, 8])
    pool = ['v0', 'v1', 'v2', 'v3']
    steps = []
    for _ in range(d.int(2, 10)):
        s = d.choice(COMPOSABLE)
        if n not in s['ns'] and not (min(s['ns']) <= n <= max(s['ns'])):
            continue
        m = None
        if s['ms'] != (None,):
            m = d.choice([x for x in s['ms'] if x <= n] or [None])
            if m is None:
                continue
        names = list(s['vars'])
        if any(f(n, m) != n for f in s['vars'].values()):
            continue  # only macros whose operands all have the pool's size take part in compositions
        chosen = []
        for _v in names:
            c = d.choice([p for p in pool if p not in chosen])
            chosen.append(c)
        C = d.choice(const_choices(s['consts']['C'], n, m)) if 'C' in s['consts'] else None
        K = d.choice(const_choices(s['consts']['K'], n, m) or [0]) if 'K' in s['consts'] else None
        steps.append({'spec': s['name'], 'map': dict(zip(names, chosen)), 'm': m, 'C': C, 'K': K})
    inits = [[d.choice(boundary_values(n)) if d.pct() < 50 else d.int(0, S.M(n)) for _ in pool] for _ in range(d.int(3, 12))]
    return {'kind': 'composition', 'n': n, 'w': d.choice([64, 32, 16]), 'steps': steps, 'inits': inits}


def families(tier):
    q = tier == 'quick'
    return [{'name': 'compositions', 'strategy': compositions, 'examples': 6 if q else 300}]


def run_composition(case):
    n, w = case['n'], case['w']
    if len(case['steps']) < 2:
        return Discard('too few steps')
    lines = ['stl.startup']
    for st_ in case['steps']:
        s = SPEC_BY_NAME[st_['spec']]
        call = s['call'].format(n=n, m=st_['m'], C=st_['C'], K=st_['K'])
        toks = call.split(' ', 1)
        args = [x.strip() for x in toks[1].split(',')]
        args = [st_['map'].get(a, a) for a in args]
        lines.append(toks[0] + ' ' + ', '.join(args))
    lines += ["stl.output_char '.'", 'stl.loop']
    for p in ('v0', 'v1', 'v2', 'v3'):
        lines += [p + ':', 'bit.vec %d' % n]
    src = '\n'.join(lines) + '\n'
    try:
        b = benchmod.Bench(src, w)
    except benchmod.BenchError as e:
        if w == 16 and ('Not enough space' in str(e) or "doesn't fit in a 16-bits" in str(e)):
            return Discard('program does not fit the 2^16-bit address space')
        return Violation('c05:composition:does-not-assemble', {'error': str(e)[:500]}, [])
    cl = ['family=composition', 'w=%d' % w, 'n=%d' % n]
    for init in case['inits']:
        env = dict(zip(('v0', 'v1', 'v2', 'v3'), init))
        m_ = b.fresh()
        for p, val in env.items():
            b.set(m_, p, n, val, 1)
        for st_ in case['steps']:
            s = SPEC_BY_NAME[st_['spec']]
            local = {formal: env[actual] for formal, actual in st_['map'].items()}
            upd = s['f'](local, n, st_['m'], st_['C'], st_['K'])
            for formal, val in upd.items():
                if not formal.startswith('_'):
                    env[st_['map'][formal]] = val
        r = b.run(m_)
        if r['cause'] != 'Looping' or r['out'] != b'.':
            return Violation('c05:composition:termination-or-carry', {'cause': r['cause'], 'out': r['out'].decode('latin-1'), 'src': src[:800], 'init': init}, cl)
        for p in env:
            got = b.get(m_, p, n, 1)
            if got != env[p]:
                return Violation('c05:composition:value', {'var': p, 'got': got, 'expected': env[p], 'init': init, 'src': src[:900]}, cl)
    distinct_macros = len({s_['spec'] for s_ in case['steps']})
    return Ok(cl + ['macros>=3'] if distinct_macros >= 3 else cl, distinct_macros >= 3, evals=len(case['inits']))


def run_case(case):
    if case.get('kind') == 'composition':
        return run_composition(case)
    return run_sweep(case)
