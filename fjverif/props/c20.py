"""C20 - the fj command, its split flows and the Python API agree."""
import json
import os
import re
import shutil
import subprocess
import sys
import tempfile
from pathlib import Path

from hypothesis import strategies as st

from fjverif import env, engines, fjmref
from fjverif.imagegen import D
from fjverif.runner import Ok, Violation, Discard

ID = 'C20'
LEVEL = 'exploration'
RULE = ('program pool (stl and no-stl programs, with and without input, single- and multi-file) x option sets drawn from '
        '-w {16,32,64 | absent}, -v {0..3 | absent}, --no_stl, -o, -d [path], --werror, --lzma_preset, -s; each case runs the '
        'three routes in fresh processes: one-step "fj files [-o x]", two-step "fj --asm -o y" + "fj --run y", and the Python '
        'API (assemble + run) with the same options.  Oracle: identical .fjm bytes (and .fjd when requested), identical '
        'program output and termination line; documented defaults: omitted -w => header width 64, omitted -v => header '
        'version 3 iff -o given else 1 (the Writer constructed by the CLI is recorded), stl macros resolve unless --no_stl.  '
        'non-trivial = >= 2 non-default options and a program that reads input')
ASSUMPTIONS = ['the CLI runs in-process inside a fresh worker process (flipjump_cli.assemble_run_according_to_cmd_line_args) so that the '
               'Writer arguments can be recorded; StandardIO streams are replaced at module level with latin-1 text streams',
               'run times in the termination line are normalised away']

PROGRAMS = {
    'hello': (True, ['stl.startup\nstl.output "Hello, World!"\nstl.loop\n'], b''),
    'cat': (True, ['    stl.startup\nstart:\n    bit.input ascii\n    bit.if0 8, ascii, end\n    bit.print ascii\n    ;start\nend:\n    stl.loop\nascii:\n    bit.vec 8, 0\n'], b'abc xyz\x00rest'),
    'cat-2files': (True, ['    stl.startup\nstart:\n    bit.input ascii\n    bit.if0 8, ascii, end\n', '    bit.print ascii\n    ;start\nend:\n    stl.loop\nascii:\n    bit.vec 8, 0\n'], b'Q1\x00'),
    'nostl-hello': (False, ['def startup @ code_start > IO {\n    ;code_start\n  IO:\n    ;0\n  code_start:\n}\ndef output_bit bit < IO {\n    IO + bit;\n}\n'
                            'def output ascii {\n    rep(8, i) output_bit ((ascii>>i)&1)\n}\n    startup\n    output \'H\'\n    output \'i\'\nl:\n    ;l\n'], b''),
    'nostl-echo-bit': (False, ['    ;code\nIO:\n    ;0\ncode:\n    ;IO\nback:\n', 'wflip IO+w, back, next\nnext:\n    IO;chk\nchk:\n    ;end\nend:\n    ;end\n'], b'\x01'),
    'warns': (True, ['def unused_thing p {\n    ;\n}\nstl.startup\nunused_thing 1\nstl.output "w"\nstl.loop\n'], b''),
    'fault': (True, ['stl.startup\n;0x100000\n'], b''),
}


@st.composite
def cases(draw):
    d = D(draw)
    name = d.choice(sorted(PROGRAMS))
    uses_stl = PROGRAMS[name][0]
    opts = {'w': d.choice([None, None, 32, 64, 16 if not uses_stl else 64]), 'v': d.choice([None, None, 0, 1, 2, 3]),
            'outfile': d.pct() < 60, 'debug': d.choice([None, None, 'path']), 'werror': d.pct() < 25,
            'lzma_preset': d.choice([None, None, 0, 9, 3]), 'silent': d.pct() < 60,
            'no_stl_flag': (not uses_stl) or (d.pct() < 8)}
    return {'program': name, 'opts': opts, 'order_swap': d.pct() < 10 and len(PROGRAMS[name][1]) > 1}


def families(tier):
    q = tier == 'quick'
    return [{'name': 'route-triples', 'strategy': cases, 'examples': 10 if q else 250}]


def run_worker(mode, spec, data, tmp):
    spec = dict(spec)
    spec['result_path'] = str(tmp / ('res_%s.json' % os.urandom(4).hex()))
    spec_path = tmp / ('spec_%s.json' % os.urandom(4).hex())
    spec_path.write_text(json.dumps(spec))
    snap = os.environ[env.ENV_SNAPSHOT]
    r = subprocess.run([sys.executable, '-m', 'fjverif.cli_worker', mode, str(spec_path)], input=data, capture_output=True,
                       env=env.child_env(snap), cwd=os.path.dirname(os.path.dirname(os.path.dirname(os.path.abspath(__file__)))), timeout=300)
    if not os.path.exists(spec['result_path']):
        raise env.HarnessError('cli worker died: %s' % r.stderr.decode()[-1500:])
    return json.loads(Path(spec['result_path']).read_text())


TIME_RE = re.compile(r'\d+\.\d+s')


def normalise(text):
    text = TIME_RE.sub('<T>s', text)
    text = re.sub(r'(parsing|macro resolve|labels resolve|create binary|loading memory):\s*<T>s\n', '', text)
    return text


def run_case(case):
    name = case['program']
    uses_stl, texts, data = PROGRAMS[name]
    o = case['opts']
    cl = ['program=' + name]
    tmp = Path(tempfile.mkdtemp(prefix='c20.', dir=str(engines.tmpdir())))
    try:
        files = []
        for i, t in enumerate(texts):
            p = tmp / ('part%d.fj' % i)
            p.write_text(t)
            files.append(str(p))
        if case.get('order_swap'):
            files = files[::-1]
        asm_opts = []
        if o['w'] is not None:
            asm_opts += ['-w', str(o['w'])]
        if o['v'] is not None:
            asm_opts += ['-v', str(o['v'])]
        if o['no_stl_flag']:
            asm_opts += ['--no_stl']
        if o['werror']:
            asm_opts += ['--werror']
        if o['lzma_preset'] is not None:
            asm_opts += ['--lzma_preset', str(o['lzma_preset'])]
        uni = ['-s'] if o['silent'] else []
        eff_w = o['w'] if o['w'] is not None else 64
        # ---- route A: one step
        a_out = tmp / 'a.fjm'
        a_dbg = tmp / 'a.fjd'
        argv_a = files + asm_opts + uni + (['-o', str(a_out)] if o['outfile'] else []) + (['-d', str(a_dbg)] if o['debug'] else [])
        A = run_worker('cli', {'argv': argv_a}, data, tmp)
        # ---- route B: two steps (always needs -o)
        b_out = tmp / 'b.fjm'
        b_dbg = tmp / 'b.fjd'
        argv_b1 = ['--asm'] + files + asm_opts + uni + ['-o', str(b_out)] + (['-d', str(b_dbg)] if o['debug'] else [])
        B1 = run_worker('cli', {'argv': argv_b1}, b'', tmp)
        B2 = None
        if B1['exit'] == 0:
            B2 = run_worker('cli', {'argv': ['--run', str(b_out)] + uni + (['-d', str(b_dbg)] if o['debug'] else [])}, data, tmp)
        # ---- defaults
        if A['writer']:
            wr = A['writer'][0]
            exp_version = o['v'] if o['v'] is not None else (3 if o['outfile'] else 1)
            if wr['width'] != eff_w:
                return Violation('c20:default-width', {'got': wr['width'], 'expected': eff_w, 'argv': argv_a}, cl)
            if wr['version'] != exp_version:
                return Violation('c20:default-version:one-step', {'got': wr['version'], 'expected': exp_version, 'argv': [a for a in argv_a if not a.startswith('/')]}, cl)
        if B1['writer']:
            wr = B1['writer'][0]
            exp_version_b = o['v'] if o['v'] is not None else 3
            if wr['version'] != exp_version_b or wr['width'] != eff_w:
                return Violation('c20:default-version:asm-step', {'got': [wr['width'], wr['version']], 'expected': [eff_w, exp_version_b]}, cl)
        # ---- route C: API with the same effective options as route B (explicit version)
        c_out = tmp / 'c.fjm'
        c_dbg = tmp / 'c.fjd'
        api_version = o['v'] if o['v'] is not None else 3
        C = run_worker('api', {'api': {'files': files, 'out': str(c_out), 'debug': str(c_dbg) if o['debug'] else None, 'w': eff_w,
                                       'use_stl': not o['no_stl_flag'], 'version': api_version, 'werror': o['werror'],
                                       'lzma_preset': o['lzma_preset'] if api_version == 3 else None, 'silent': o['silent']}}, data, tmp)
        # ---- route D: the single-call API (assemble_and_run: temporary .fjm, so only success / output / termination compare)
        Dr = run_worker('api', {'api': {'files': files, 'out': str(tmp / 'd.fjm'), 'debug': None, 'w': eff_w, 'one_call': True,
                                        'prior_run': (len(name) + eff_w + api_version) % 2 == 0,
                                        'use_stl': not o['no_stl_flag'], 'version': api_version, 'werror': o['werror'],
                                        'lzma_preset': None, 'silent': o['silent']}}, data, tmp)
        ok_a, ok_b, ok_c = A['exit'] == 0, (B1['exit'] == 0 and B2 is not None and B2['exit'] == 0), C['exit'] == 0
        if (Dr['exit'] == 0) != ok_c:
            return Violation('c20:routes-disagree-on-success:assemble_and_run', {'api': [C['exit'], C.get('exc')], 'assemble_and_run': [Dr['exit'], Dr.get('exc'), Dr.get('msg', '')[:150]], 'opts': o}, cl)
        if len({ok_a, ok_b, ok_c}) > 1:
            return Violation('c20:routes-disagree-on-success', {'one_step': [A['exit'], A.get('exc'), A.get('msg', '')[:150]],
                                                               'two_step': [B1['exit'], B1.get('exc'), (B2 or {}).get('exit')],
                                                               'api': [C['exit'], C.get('exc'), C.get('msg', '')[:150]], 'opts': o}, cl)
        if not ok_a:
            cl.append('all routes fail alike')
            if uses_stl and o['no_stl_flag']:
                cl.append('stl macros unresolved with --no_stl (as documented)')
            return Ok(cl, False)
        # ---- fjm bytes
        fb = b_out.read_bytes()
        fc = c_out.read_bytes()
        if fb != fc:
            return Violation('c20:fjm-bytes-differ:two-step-vs-api', {'len': [len(fb), len(fc)], 'opts': o}, cl)
        if o['outfile']:
            fa = a_out.read_bytes()
            va = o['v'] if o['v'] is not None else 3
            if va == api_version and fa != fb:
                return Violation('c20:fjm-bytes-differ:one-step-vs-two-step', {'len': [len(fa), len(fb)], 'opts': o}, cl)
            hdr = fjmref.decode(fa)
            if isinstance(hdr, fjmref.Reject) or hdr.w != eff_w or hdr.version != va:
                return Violation('c20:outfile-header', {'decoded': repr(hdr)[:100], 'expected': [eff_w, va]}, cl)
        if o['debug']:
            if a_dbg.read_bytes() != b_dbg.read_bytes() or b_dbg.read_bytes() != c_dbg.read_bytes():
                return Violation('c20:fjd-bytes-differ', {'opts': o}, cl)
            cl.append('fjd compared')
        # ---- program output + termination line
        outs = {'one-step': normalise(A['stdout']), 'two-step': normalise(B1['stdout'] + B2['stdout']), 'api': normalise(C['stdout']),
                'assemble_and_run': normalise(Dr['stdout'])}
        if not o['debug']:
            # assemble_and_run always runs with the label table of its temporary debug file: the last-ops listing is
            # annotated and the "use debugging flags" hint is absent.  Program output and termination line still compare.
            def upto_termination(t):
                return re.split(r'\n\n\*\*\*\* You may want|\n\nLast \d+ ops were', t)[0]
            if upto_termination(outs.pop('assemble_and_run')) != upto_termination(outs['api']):
                return Violation('c20:stdout-differs:assemble_and_run', {'api': outs['api'][-300:], 'assemble_and_run': normalise(Dr['stdout'])[-300:]}, cl)
        if len(set(outs.values())) > 1:
            return Violation('c20:stdout-differs', {k: v[-300:] for k, v in outs.items()}, cl)
        expected_out = {'hello': 'Hello, World!', 'cat': 'abc xyz', 'cat-2files': 'Q1', 'nostl-hello': 'Hi'}.get(name)
        if expected_out is not None and not case.get('order_swap'):
            got_out = outs['one-step'] if o['silent'] else outs['one-step'].split('\nFinished by')[0].lstrip('\n') if 'Finished by' in outs['one-step'] else None
            if o['silent'] and got_out != expected_out:
                return Violation('c20:program-output-not-the-programs', {'got': got_out[:100], 'expected': expected_out, 'files': len(files)}, cl)
            cl.append('program output matches the source semantics')
        if not o['silent']:
            cl.append('termination line compared')
        nd = sum(1 for k in ('w', 'v', 'debug', 'lzma_preset') if o[k] is not None) + o['werror'] + o['silent'] + o['outfile']
        if data:
            cl.append('reads input')
        cl.append('non-default options>=2' if nd >= 2 else 'few options')
        return Ok(sorted(set(cl)), nd >= 2 and bool(data), sample={'program': name, 'opts': o})
    finally:
        shutil.rmtree(tmp, ignore_errors=True)
