"""C10 - reading an .fjm is total; damaged or torn files are rejected."""
import os
import struct
import tracemalloc

from hypothesis import strategies as st

from fjverif import engines, fjmref, machine
from fjverif.imagegen import D
from fjverif.runner import Ok, Violation, Discard

ID = 'C10'
LEVEL = 'exploration'
RULE = ('byte strings from five families: (prefix) every/drawn strict prefixes of files produced by the real Writer; '
        '(mutate) single-field corruption of header / extension / segment table (0, 1, max, +-1, another field, '
        'pool length ...) and payload damage (bit flips, byte insert/delete, truncation, also inside the LZMA2 stream); '
        '(table) reference-encoder output for inconsistent segment tables; (raw) arbitrary bytes with a plausible header. '
        'Oracle: Reader ends in an image or FlipJumpReadFjmException (no other exception, bounded allocation); a '
        'format-level reject of the reference decoder must be rejected; an accepted file must load as the reference '
        'decoder\'s image with no word outside the listed segments; a strict prefix is rejected or loads the full '
        'file\'s image; an accepted runnable file runs like the reference machine on all three engines. '
        'non-trivial = not pristine and not rejected at the magic check (reaches segment/data parsing)')
ASSUMPTIONS = ['reference decoder fjverif/fjmref.py from the documented struct',
               'allocation bound: tracemalloc peak <= 64 MiB + 6000 x file size (tolerates LZMA expansion)',
               'engine comparison only when the reference machine halts within 5000 ops']

U64 = 1 << 64


@st.composite
def small_image(draw, allow_big=True):
    d = D(draw)
    w = d.choice([8, 16, 32, 64])
    ww = w.bit_length() - 1
    mask = (1 << w) - 1
    nseg = d.int(1, 3)
    segs = []
    used = []
    for k in range(nseg):
        dl = 2 * d.int(0 if k else 1, 6)
        tail = d.choice([0, 0, 2, 10, 1000] if allow_big else [0, 0, 2])
        l = max(2, dl + tail)
        for _ in range(5):
            a = 0 if k == 0 else d.choice([2 * d.int(0, 40), (1 << 14) - 2, 1 << (w - ww - 1)])
            if all(a + l <= s or s + ll <= a for s, ll in used):
                break
        else:
            continue
        if not all(a + l <= s or s + ll <= a for s, ll in used):
            continue
        used.append((a, l))
        data = []
        for i in range(dl):
            r = d.pct()
            if r < 40:
                data.append(d.int(0, min(mask, 8 * w)))
            elif r < 60:
                data.append(((a + i) * w + d.int(0, 4 * w)) & mask)
            else:
                data.append(d.int(0, mask))
        segs.append([a, l, data])
    extra = [d.int(0, mask) for _ in range(d.choice([0, 0, 0, 1, 2, 3]))]
    return {'w': w, 'version': d.int(0, 3), 'segments': segs, 'extra': extra, 'preset': d.choice([0, 6])}


@st.composite
def prefix_cases(draw):
    img = draw(small_image())
    d = D(draw)
    img['kind'] = 'prefix'
    img['cut'] = d.int(0, 100000)  # interpreted modulo the file length
    return img


FIELD_VALUES = [0, 1, 2, 3, 4, 7, 8, 16, 32, 64, 0x4a46, 255, 256, 1000, 999, 1001, (1 << 16) - 1, 1 << 31, (1 << 32) - 1,
                1 << 32, 1 << 57, 1 << 58, 1 << 62, 1 << 63, (1 << 63) - 1, U64 - 1, U64 - 2, U64 - 64]


@st.composite
def mutate_cases(draw):
    img = draw(small_image())
    d = D(draw)
    img['kind'] = 'mutate'
    muts = []
    for _ in range(d.choice([1, 1, 1, 2, 3])):
        r = d.pct()
        if r < 45:
            muts.append(['field', d.int(0, 40), d.choice(['value', 'delta', 'copy']), d.choice(FIELD_VALUES), d.int(-3, 3), d.int(0, 40)])
        elif r < 65:
            muts.append(['flip', d.int(0, 100000), d.int(0, 7)])
        elif r < 75:
            muts.append(['insert', d.int(0, 100000), d.int(0, 255)])
        elif r < 85:
            muts.append(['delete', d.int(0, 100000), d.int(1, 9)])
        elif r < 93:
            muts.append(['truncate', d.int(1, 40)])
        else:
            muts.append(['append', [d.int(0, 255) for _ in range(d.int(1, 9))]])
    img['mutations'] = muts
    return img


@st.composite
def table_cases(draw):
    d = D(draw)
    w = d.choice([8, 16, 32, 64])
    mask = (1 << w) - 1
    n = d.int(0, 12)
    pool = [d.int(0, mask) if d.pct() < 50 else d.int(0, 6 * w) for _ in range(n)]
    segs = []
    for k in range(d.int(0, 5)):
        s = d.choice([0, 0, 2, 4, 2 * d.int(0, 30), d.int(0, 60), 1 << 14, U64 - 2, U64 - 4, 1 << 63, d.choice(FIELD_VALUES)])
        l = d.choice([2, 2, 4, 6, 0, 1, 2 * d.int(0, 20), d.int(0, 40), 1000, 1002, 1 << 20, 1 << 40, U64 - 1, d.choice(FIELD_VALUES)])
        ds = d.choice([0, 0, 2, d.int(0, n + 2), d.choice(FIELD_VALUES)])
        dl = d.choice([0, 2, 2, 4, n, d.int(0, n + 3), l if l < 64 else 2, d.choice(FIELD_VALUES)])
        if segs and d.pct() < 35:
            # nested / overlapping with an earlier entry
            ps, pl = segs[d.int(0, len(segs) - 1)][:2]
            # including one-word overlaps / exact adjacency through odd starts and lengths
            s = (ps + d.choice([0, 2, 2 * d.int(0, 8), max(0, pl - 2), max(0, pl - 1), pl, pl + 1, 1, 3])) & (U64 - 1)
            l = d.choice([2, 4, 1000, 2 * d.int(1, 600), pl, 1, 3, 5, pl + 1, max(1, pl - 1)])
            if d.pct() < 25:
                # ... or the earlier entry grows by one word into this one
                segs[-1][1] = (s - segs[-1][0] + 1) & (U64 - 1) if s > segs[-1][0] else segs[-1][1]
        segs.append([s & (U64 - 1), l & (U64 - 1), ds & (U64 - 1), dl & (U64 - 1)])
    if segs and d.pct() < 6:
        # a first segment too short to hold the first op (execution starts at address 0: not a runnable program)
        segs[0] = [0, d.choice([0, 1, 1]), segs[0][2], 0]
    elif segs and d.pct() < 50:
        # make it runnable: a first op that touches a drawn word, then a self loop
        w_ = w
        tgt = d.choice([x[0] + d.int(0, max(0, min(x[1], 1200) - 1)) for x in segs] + [d.int(0, 1500)])
        pool[:4] = [((tgt * w_) + d.int(0, w_ - 1)) & mask, 2 * w_, d.int(0, 3 * w_), 2 * w_]
        n = len(pool)
        segs[0] = [0, d.choice([4, 6, 2 * d.int(2, 20)]), 0, 4]
    return {'kind': 'table', 'w': w, 'version': d.int(0, 3), 'segs4': segs, 'pool': pool,
            'flags': d.choice([0, 0, 1, U64 - 1]), 'reserved': d.choice([0, 0, 0, 0, 1, (1 << 32) - 1]),
            'segment_num': d.choice([None, None, None, len(segs) + 1, max(0, len(segs) - 1), 1 << 40, U64 - 1])}


@st.composite
def raw_cases(draw):
    d = D(draw)
    body = draw(st.binary(min_size=0, max_size=120))
    r = d.pct()
    if r < 70:
        w = d.choice([8, 16, 32, 64, 64, d.int(0, 65535)])
        version = d.choice([0, 1, 2, 3, 3, 4, d.int(0, 1 << 40)])
        head = struct.pack('<HHQQ', fjmref.MAGIC, w, version, d.choice([0, 1, 1, 2, 3, d.int(0, 1 << 30)]))
        if version != 0 and d.pct() < 90:
            head += struct.pack('<QL', d.choice([0, 0, 5]), d.choice([0, 0, 0, 1]))
        body = head + body
    return {'kind': 'raw', 'hex': body.hex()}


def families(tier):
    q = tier == 'quick'
    return [{'name': 'prefix', 'strategy': prefix_cases, 'examples': 300 if q else 10000},
            {'name': 'mutate', 'strategy': mutate_cases, 'examples': 500 if q else 30000},
            {'name': 'table', 'strategy': table_cases, 'examples': 400 if q else 20000},
            {'name': 'raw', 'strategy': raw_cases, 'examples': 300 if q else 15000}]


# fixed small files whose prefixes are enumerated exhaustively
def _fixed_images():
    out = []
    for w in (8, 16, 32, 64):
        for version in (0, 1, 2, 3):
            mask = (1 << w) - 1
            segs = [[0, 6, [2 * w + 1, 4 * w, (3 * w + 7) & mask, (1 << w) - 3 if w > 8 else 200, 5, 2 * w]], [8, 4, [mask - 1, 9 * w & mask]]]
            out.append({'w': w, 'version': version, 'segments': segs, 'extra': [1] if version < 2 else [], 'preset': 0})
    return out


def enumerations(tier):
    def cases(shard, nshards):
        imgs = _fixed_images()
        for k, img in enumerate(imgs):
            if k % nshards != shard:
                continue
            b = build_bytes(dict(img, kind='prefix', cut=0), full=True)
            for cut in range(len(b)):
                c = dict(img)
                c['kind'] = 'prefix'
                c['cut'] = cut
                c['exact_cut'] = True
                yield c
    return [{'name': 'all-prefixes-of-16-files', 'cases': cases, 'exhaustive': True}]


# ------------------------------------------------------------------ building bytes

def writer_bytes(img):
    path = engines.tmpdir() / 'c10_src.fjm'
    from flipjump.fjm import fjm_writer
    from flipjump.fjm.fjm_consts import FJMVersion
    kw = {'lzma_preset': img.get('preset', 0)} if img['version'] == 3 else {}
    wr = fjm_writer.Writer(path, img['w'], FJMVersion(img['version']), **kw)
    for s, l, data in img['segments']:
        ds = wr.add_data(list(data))
        wr.add_segment(s, l, ds, len(data))
    if img.get('extra'):
        wr.add_data(list(img['extra']))
    wr.write_to_file()
    with open(path, 'rb') as f:
        return f.read()


def field_layout(b):
    """[(offset, size)] of header / extension / segment-table fields of a well-formed file"""
    out = [(0, 2), (2, 2), (4, 8), (12, 8)]
    version = struct.unpack('<Q', b[4:12])[0]
    nseg = struct.unpack('<Q', b[12:20])[0]
    pos = 20
    if version != 0:
        out += [(20, 8), (28, 4)]
        pos = 32
    for i in range(min(nseg, 8)):
        for j in range(4):
            out.append((pos + 32 * i + 8 * j, 8))
    return out


def build_bytes(case, full=False):
    kind = case['kind']
    if kind == 'raw':
        return bytes.fromhex(case['hex'])
    if kind == 'table':
        segs = [tuple(s) for s in case['segs4']]
        return fjmref.encode(case['w'], case['version'], segs, case['pool'], flags=case['flags'], reserved=case['reserved'],
                             relativise=False, segment_num=case['segment_num'])
    b = writer_bytes(case)
    if kind == 'prefix':
        if full:
            return b
        cut = case['cut'] if case.get('exact_cut') else case['cut'] % len(b)
        return b[:cut]
    b = bytearray(b)
    for m in case['mutations']:
        if not b:
            break
        if m[0] == 'field':
            lay = field_layout(bytes(b)) if len(b) >= 20 else [(0, 2)]
            off, size = lay[m[1] % len(lay)]
            cur = int.from_bytes(b[off:off + size], 'little')
            if m[2] == 'value':
                v = m[3]
            elif m[2] == 'delta':
                v = cur + (m[4] or 1)
            else:
                o2, s2 = lay[m[5] % len(lay)]
                v = int.from_bytes(b[o2:o2 + s2], 'little')
            b[off:off + size] = (v % (1 << (8 * size))).to_bytes(size, 'little')
        elif m[0] == 'flip':
            b[m[1] % len(b)] ^= 1 << m[2]
        elif m[0] == 'insert':
            b.insert(m[1] % (len(b) + 1), m[2])
        elif m[0] == 'delete':
            p = m[1] % len(b)
            del b[p:p + m[2]]
        elif m[0] == 'truncate':
            del b[max(0, len(b) - m[1]):]
        elif m[0] == 'append':
            b.extend(m[1])
    return bytes(b)


# ------------------------------------------------------------------ oracle

def reader_value(r, wa):
    v = r.memory.get(wa)
    if v is not None:
        return v
    for a, bnd in r.zeros_boundaries:
        if a <= wa < bnd:
            return 0
    return None


def image_words(img):
    """model of a pristine image: {wa: value}, segments"""
    out = {}
    for s, l, data in img['segments']:
        for i in range(l):
            out[s + i] = data[i] if i < len(data) else 0
    return out


def read_guarded(path, nbytes):
    from flipjump.fjm.fjm_reader import Reader
    from flipjump.utils.exceptions import FlipJumpReadFjmException
    tracemalloc.start()
    try:
        try:
            with engines.hang_guard(30):
                r = Reader(path)
            res = ('ok', r)
        except FlipJumpReadFjmException as e:
            res = ('reject', e)
        except engines.EngineTimeout:
            res = ('timeout', None)
        except MemoryError as e:
            res = ('raw', e)
        except Exception as e:
            res = ('raw', e)
        peak = tracemalloc.get_traced_memory()[1]
    finally:
        tracemalloc.stop()
    return res, peak


def run_case(case):
    from flipjump.utils.exceptions import FlipJumpReadFjmException
    try:
        b = build_bytes(case)
    except Exception as e:
        return Discard('could not build bytes: %s' % type(e).__name__)
    kind = case['kind']
    cl = ['family=' + kind]
    pristine = None
    if kind in ('prefix', 'mutate'):
        pristine = case
        full = writer_bytes(case)
        if kind == 'prefix' and len(b) >= len(full):
            return Discard('not a strict prefix')
        if kind == 'mutate' and b == full:
            return Discard('mutation is identity')
    path = engines.tmpdir() / 'c10.fjm'
    with open(path, 'wb') as f:
        f.write(b)
    (status, obj), peak = read_guarded(path, len(b))
    ref = fjmref.decode(b)
    if status in ('ok', 'reject'):
        # the same bytes through the reader's other garbage-handling modes: what is a file and which image it holds
        # may not depend on how accesses outside the segments will be treated later
        from flipjump.fjm.fjm_reader import Reader, GarbageHandling
        from flipjump.utils.exceptions import FlipJumpReadFjmException
        mode = GarbageHandling(1 + (len(b) + sum(b[:8])) % 3)
        try:
            with engines.hang_guard(30):
                r2 = Reader(path, garbage_handling=mode)
            st2 = 'ok'
        except FlipJumpReadFjmException:
            st2, r2 = 'reject', None
        except engines.EngineTimeout:
            st2, r2 = status, None
        except Exception as e:  # noqa
            return Violation('c10:reader-raw-exception:%s:garbage-handling=%s' % (type(e).__name__, mode.name), {'exc': repr(e)[:300], 'hex': b[:96].hex()}, cl)
        if st2 != status:
            return Violation('c10:garbage-handling-mode-changes-acceptance', {'default': status, mode.name: st2, 'len': len(b), 'hex': b[:160].hex()}, cl)
        if r2 is not None and status == 'ok' and (r2.memory != obj.memory or [(x.segment_start, x.segment_length) for x in r2.memory_segments]
                                                  != [(x.segment_start, x.segment_length) for x in obj.memory_segments]):
            return Violation('c10:garbage-handling-mode-changes-image', {'mode': mode.name, 'hex': b[:160].hex()}, cl)
        cl.append('also read with garbage_handling=' + mode.name)
    if status == 'timeout':
        return Discard('inconclusive: reader wall guard')
    if status == 'raw':
        return Violation('c10:reader-raw-exception:' + type(obj).__name__, {'exc': repr(obj)[:300], 'len': len(b), 'hex': b[:96].hex()}, cl)
    if peak > (64 << 20) + 6000 * len(b):
        return Violation('c10:allocation-unrelated-to-file-size', {'peak': peak, 'len': len(b), 'hex': b[:96].hex()}, cl)
    reached = len(b) >= 20 and b[:2] == b'FJ'
    if status == 'reject':
        cl.append('rejected')
        if isinstance(ref, fjmref.Reject):
            cl.append('reference also rejects:' + ref.reason)
        else:
            cl.append('reader stricter than reference')
        return Ok(cl, reached)
    r = obj
    cl.append('accepted')
    if isinstance(ref, fjmref.Reject):
        if ref.grade == 'resource':
            return Discard('reference cap')
        return Violation('c10:reader-accepts:' + ref.reason.replace(' ', '-'), {'reference': repr(ref), 'len': len(b), 'hex': b[:120].hex()}, cl)
    # accepted by both: the image must be well defined
    segs = [(s.segment_start, s.segment_length) for s in r.memory_segments]
    if segs != [(s, l) for s, l, _, _ in ref.segments] or r.memory_width != ref.w:
        return Violation('c10:accepted-image-differs:segments', {'got': segs[:6], 'expected': [(s, l) for s, l, _, _ in ref.segments][:6]}, cl)

    def in_segment(wa):
        return any(s <= wa < s + l for s, l in segs)
    geometry = getattr(ref, 'geometry_issue', None)
    overlapping = any(not (s1 + l1 <= s2 or s2 + l2 <= s1) for i, (s1, l1) in enumerate(segs) for (s2, l2) in segs[i + 1:] if l1 and l2)
    if overlapping and not geometry:
        geometry = 'overlapping segments'
    if len(r.memory) <= 50000:
        for k in r.memory:
            if k >= U64 or k < 0:
                return Violation('c10:reader-accepts:%s:word-address-beyond-2^64' % (geometry or 'clean').replace(' ', '-'), {'key': k, 'hex': b[:120].hex()}, cl)
            if not in_segment(k):
                return Violation('c10:reader-accepts:%s:word-outside-every-segment' % (geometry or 'clean').replace(' ', '-'),
                                 {'key': k, 'segments': segs[:6], 'hex': b[:160].hex()}, cl)
    if not geometry:
        # exact image equality with the reference decoder on probe addresses
        probes = set()
        for s, l, ds, dl in ref.segments:
            probes.update(range(s, s + min(l, 64)))
            probes.update(range(max(s, s + l - 4), s + l))
            probes.update(range(max(s, s + dl - 2), min(s + l, s + dl + 2)))
            probes.update((s - 1, s + l))
        for wa in sorted(probes):
            if wa < 0 or wa >= U64:
                continue
            e = ref.value_at(wa)
            g = reader_value(r, wa)
            if g != e:
                return Violation('c10:accepted-image-differs:word', {'word': wa, 'expected': e, 'got': g, 'hex': b[:160].hex()}, cl)
        cl.append('image equals reference decoder')
    else:
        cl.append('geometry:' + geometry)
        if overlapping:
            # a word claimed by two segments with different content has no well-defined value
            rs = ref.segments
            for i, (s1, l1, ds1, dl1) in enumerate(rs):
                for (s2, l2, ds2, dl2) in rs[i + 1:]:
                    lo, hi = max(s1, s2), min(s1 + l1, s2 + l2)
                    for wa in list(range(lo, min(hi, lo + 40))) + list(range(max(lo, hi - 4), hi)):
                        v1 = ref.pool[ds1 + wa - s1] if wa - s1 < dl1 else 0
                        v2 = ref.pool[ds2 + wa - s2] if wa - s2 < dl2 else 0
                        if ref.version >= 2:
                            if wa - s1 < dl1 and (wa - s1) % 2:
                                v1 = (v1 + wa * ref.w) & ((1 << ref.w) - 1)
                            if wa - s2 < dl2 and (wa - s2) % 2:
                                v2 = (v2 + wa * ref.w) & ((1 << ref.w) - 1)
                        if v1 != v2:
                            return Violation('c10:reader-accepts:overlapping-segments:word-with-two-values',
                                             {'word': wa, 'values': [v1, v2], 'segments': segs[:6], 'hex': b[:160].hex()}, cl)
    if pristine is not None:
        want = image_words(pristine)
        want_segs = [(s, l) for s, l, _ in pristine['segments']]
        same = segs == want_segs and all(reader_value(r, wa) == v for wa, v in want.items())
        if kind == 'prefix':
            if not same:
                return Violation('c10:torn-file-accepted-as-different-image', {'cut': len(b), 'version': case['version'], 'w': case['w'],
                                                                              'segments_got': segs[:4]}, cl)
            cl.append('prefix decodes to the same image')
        else:
            cl.append('mutant accepted: same image' if same else 'mutant accepted: different (consistent) image')
    # run it: an accepted runnable file must run like the reference machine says
    runnable = any(s == 0 and l >= 2 for s, l in segs)
    if runnable and not geometry and ref.w in (8, 16, 32, 64):
        mseg = []
        total_words = 0
        ok = True
        for s, l, ds, dl in ref.segments:
            data = [ref.value_at(s + i) for i in range(dl)]
            mseg.append([s, l, data])
            total_words += dl
        space = 1 << (ref.w - (ref.w.bit_length() - 1))
        if any(s + l > space for s, l, _ in mseg):
            ok = False  # outside the machine's address space: not a machine image (C06/C11 territory)
        if ok:
            inp = [1, 0, 1, 1, 0, 0, 1, 0]
            mref = machine.run(ref.w, mseg, inp, budget=5000)
            if mref.cause != machine.BUDGET:
                for eng in engines.ENGINES:
                    dev = engines.make_rec_device(inp)
                    o = engines.run_engine(path, eng, dev)
                    if o.exc is not None:
                        if isinstance(o.exc, FlipJumpReadFjmException):
                            return Violation('c10:run-rejects-what-reader-accepts', {'engine': eng, 'exc': repr(o.exc)[:200]}, cl)
                        return Violation('c10:run-raw-exception:%s:%s' % (eng, type(o.exc).__name__),
                                         {'engine': eng, 'exc': repr(o.exc)[:300], 'cause': repr(getattr(o.exc, '__cause__', None))[:200], 'hex': b[:160].hex()}, cl)
                    if (o.cause, o.ops, o.fault, o.dev.calls) != (mref.cause, mref.ops, mref.fault, mref.calls):
                        return Violation('c10:accepted-file-runs-differently:' + eng,
                                         {'engine': eng, 'got': [o.cause, o.ops, o.fault], 'expected': [mref.cause, mref.ops, mref.fault], 'hex': b[:160].hex()}, cl)
                cl.append('ran on 3 engines')
    elif not runnable:
        # not a program: every engine must refuse it with the read error
        for eng in engines.ENGINES:
            dev = engines.make_rec_device([1, 0])
            o = engines.run_engine(path, eng, dev, timeout=10)
            if o.exc is None:
                return Violation('c10:run-accepts-file-without-first-op:' + eng, {'engine': eng, 'got': [o.cause, o.ops, o.fault], 'segments': segs[:4]}, cl)
            if not isinstance(o.exc, FlipJumpReadFjmException):
                return Violation('c10:run-raw-exception:%s:%s' % (eng, type(o.exc).__name__),
                                 {'engine': eng, 'exc': repr(o.exc)[:300], 'cause': repr(getattr(o.exc, '__cause__', None))[:200], 'segments': segs[:4]}, cl)
        cl.append('non-runnable refused by 3 engines')
    elif geometry and runnable:
        # ill-formed geometry accepted by the reader: the engines must at least agree with each other
        inp = [1, 0, 1, 1]
        outs = []
        for eng, knobs in (('featured', None), ('fast', None), ('native', None), ('native', {'no_flat': True})):
            dev = engines.make_rec_device(inp)
            with_guard = engines.run_engine(path, eng, dev, timeout=4, knobs=knobs)
            if with_guard.exc is not None and isinstance(with_guard.exc, engines.EngineTimeout):
                return Discard('inconclusive: run wall guard')
            outs.append((eng, repr(type(with_guard.exc).__name__) if with_guard.exc is not None else None, with_guard.cause, with_guard.ops,
                         with_guard.fault, tuple(dev.calls)))
        if len({o[1:] for o in outs}) > 1:
            return Violation('c10:reader-accepts:%s:engines-disagree' % geometry.replace(' ', '-'), {'outcomes': [list(o[:5]) for o in outs], 'hex': b[:160].hex()}, cl)
    nt = reached and not (pristine is None and False)
    return Ok(cl, nt)
