"""C18 - a device failure or interrupt stops the run at a consistent point."""
import os
import signal
import threading
import time

from hypothesis import strategies as st

from fjverif import machine, imagegen, engines
from fjverif.imagegen import D
from fjverif.runner import Ok, Violation, Discard

ID = 'C18'
LEVEL = 'fault_enumeration'
RULE = ('(faults) for each generated IO-heavy image with m IO calls: EVERY call index k in 1..min(m,40) x {library '
        'IODeviceException, IOReadOnEOF raised by write_bit (by read_bit = end of input), foreign ValueError, '
        'KeyboardInterrupt, BaseException subclass} x {featured, fast, native flat/ring/paged}; oracle = reference '
        'machine stopped at the same call: exception identity / wrapping / KeyboardInterrupt termination, device call '
        'log, op count and last-ops where statistics are returned, and memory read back through the held DeviceMemory '
        '(the failing op has not flipped, the input bit was not stored).  (signals) an IO-free ring of P ops each '
        'toggling a private bit runs until a timer thread sends SIGINT after a drawn delay; the result must be a '
        'KeyboardInterrupt termination with op count N and memory exactly the state after N ops.  '
        'non-trivial = a fault at k >= 2 after at least one flip of a code word, or a signal run that was interrupted')
ASSUMPTIONS = ['reference machine with device hooks (fjverif/machine.py)',
               'signal landing points are sampled, not enumerated; a run that ends before the signal is inconclusive']


class _Plan:
    def __init__(self, k, exc):
        self.k = k
        self.exc = exc

    def on_call(self, dev, k, kind, bit):
        if k == self.k:
            if kind == 'r' and type(self.exc).__name__ == 'IOReadOnEOF':
                dev.calls.append('E')  # logged like a natural end of input
            raise self.exc
        return None


class _RefDevice:
    """same plan for the reference machine"""

    def __init__(self, k, kind, inp):
        self.k = k
        self.kind = kind
        self.inp = list(inp)

    def on_write(self, m, k, bit):
        if k == self.k:
            raise machine.DeviceStop('kbd' if self.kind == 'kbd' else 'exc')

    def on_read(self, m, k):
        if k == self.k:
            if self.kind == 'eof':
                raise machine.EofSignal()
            raise machine.DeviceStop('kbd' if self.kind == 'kbd' else 'exc')
        if not self.inp:
            raise machine.EofSignal()
        return self.inp.pop(0)


KINDS = ('ioerr', 'eof', 'foreign', 'kbd', 'base')


def make_exc(kind, variant=0):
    from flipjump.utils.exceptions import IODeviceException, IOReadOnEOF, BrokenIOUsed, IncompleteOutput

    class PlannedIOError(IODeviceException):
        pass

    class PlannedBase(BaseException):
        pass

    if kind == 'ioerr':
        # every IO error class of the library (and a device's own subclass) is a library IO error
        return (PlannedIOError('planned device failure'), IncompleteOutput('planned incomplete output'), BrokenIOUsed('planned broken io'),
                IODeviceException('planned io-device exception'))[variant % 4]
    if kind == 'eof':
        return IOReadOnEOF('planned eof')
    if kind == 'foreign':
        # any exception class that is not the library's: plain, OSError family (the library's IODeviceException derives from
        # IOError, these do not), custom
        class PlannedCustom(Exception):
            pass
        return (ValueError('planned foreign failure'), BrokenPipeError(32, 'planned broken pipe'), TimeoutError('planned timeout'),
                OSError(28, 'planned: no space left on device'), PlannedCustom('planned'), RuntimeError('planned'))[variant % 6]
    if kind == 'kbd':
        return KeyboardInterrupt()
    return PlannedBase('planned base exception')


@st.composite
def io_images(draw):
    img = draw(imagegen.images(widths=(8, 16, 32, 64), max_steps_choices=(20, 40, 80)))
    return img


@st.composite
def signal_cases(draw):
    d = D(draw)
    return {'kind': 'signal', 'w': d.choice([16, 32, 64]), 'P': d.choice([3, 5, 8, 13]), 'delay_ms': d.int(0, 300),
            'engine': d.choice(['native', 'native', 'fast', 'featured']), 'last_len': d.choice([None, 4, 10, 4]),
            'no_flat': d.pct() < 25}


def families(tier):
    q = tier == 'quick'
    return [{'name': 'device-faults', 'strategy': io_images, 'examples': 60 if q else 2500},
            {'name': 'signals', 'strategy': signal_cases, 'examples': 6 if q else 150}]


def words_to_check(case, ref):
    out = set()
    for s, l, d in case['segments']:
        if l <= 2048:
            out.update(range(s, s + l))
        else:
            out.update(range(s, s + 64))
    m = machine.Machine(case['w'], case['segments'])
    out.update(wa for wa in ref.touched if m.valid(wa))
    return sorted(out)


CONFIGS = [('featured', None, None), ('fast', None, None), ('native', None, None), ('native', 3, None),
           ('native', None, {'no_flat': True}), ('fast', 2, None), ('native', 5, {'no_flat': True}), ('featured', 4, None)]


def run_fault_case(case):
    from flipjump.utils.exceptions import FlipJumpRuntimeException
    w = case['w']
    segs = case['segments']
    base = machine.run(w, segs, case['input_bits'])
    if base.cause == machine.BUDGET:
        return Discard('reference budget')
    m = len(base.calls)
    if m == 0:
        return Discard('no IO')
    path = engines.tmpdir() / 'c18.fjm'
    engines.write_image(path, w, segs, case['version'])
    cl = ['w=%d' % w, 'io calls>=%d' % (1 if m < 5 else 5 if m < 20 else 20)]
    nontrivial = False
    runs = 0
    for k in range(1, min(m, 40) + 1):
        call_is_write = base.calls[k - 1].startswith('w')
        for ki, kind in enumerate(KINDS):
            if kind == 'eof' and base.calls[k - 1] == 'E':
                continue
            ref = machine.run(w, segs, (), device=_RefDevice(k, kind, case['input_bits']))
            refm = machine.Machine(w, segs)
            refm.mem = ref.mem
            words = words_to_check(case, ref)
            # all engines on k == 1 and the drawn few; round-robin otherwise (every config is hit for every kind over k)
            cfgs = CONFIGS if k <= 2 else [CONFIGS[(k + ki + j) % len(CONFIGS)] for j in range(3)]
            for eng, last_len, knobs in cfgs:
                exc = make_exc(kind, k + runs)
                dev = engines.make_rec_device(case['input_bits'], script=_Plan(k, exc))
                o = engines.run_engine(path, eng, dev, last_len=last_len, knobs=knobs)
                runs += 1
                tag = '%s%s%s' % (eng, ':ring' if last_len else '', ':paged' if knobs else '')
                info = {'k': k, 'kind': kind, 'call': base.calls[k - 1], 'engine': tag}
                # ---- outcome class
                if kind == 'eof' and not call_is_write:
                    if o.exc is not None or o.cause != 'EOF':
                        return Violation('c18:%s:eof-on-read-not-EOF-termination' % eng, dict(info, got=o.summary()), cl)
                    if o.ops != ref.ops:
                        return Violation('c18:%s:op-count' % eng, dict(info, got=o.ops, expected=ref.ops), cl)
                elif kind in ('ioerr', 'eof'):
                    if o.exc is not exc:
                        return Violation('c18:%s:library-io-exception-not-propagated-unchanged' % eng, dict(info, got=o.summary()), cl)
                elif kind == 'foreign':
                    if not isinstance(o.exc, FlipJumpRuntimeException) or o.exc.__cause__ is not exc:
                        return Violation('c18:%s:foreign-exception-not-wrapped' % eng, dict(info, got=o.summary(),
                                                                                        cause=repr(getattr(o.exc, '__cause__', None))), cl)
                elif kind == 'kbd':
                    if o.exc is not None or o.cause != 'KeyboardInterrupt':
                        return Violation('c18:%s:interrupt-not-keyboardinterrupt-termination' % eng, dict(info, got=o.summary()), cl)
                    if o.ops != ref.ops:
                        return Violation('c18:%s:op-count' % eng, dict(info, got=o.ops, expected=ref.ops), cl)
                    if last_len:
                        exp_last = ref.ips[-last_len:]
                        if o.last_ops != exp_last:
                            key = 'c18:%s:last-ops' % eng
                            if eng == 'native' and o.last_ops == []:
                                key = 'c18:native:last-ops-empty-on-keyboardinterrupt'
                            return Violation(key, dict(info, got=o.last_ops, expected=exp_last), cl)
                        cl.append('last-ops on interrupt checked')
                else:  # base
                    if o.exc is not exc and not (isinstance(o.exc, FlipJumpRuntimeException) and o.exc.__cause__ is exc):
                        return Violation('c18:%s:base-exception-lost' % eng, dict(info, got=o.summary()), cl)
                # ---- device call log
                if dev.calls != ref.calls:
                    return Violation('c18:%s:io-calls' % eng, dict(info, got=dev.calls[-12:], expected=ref.calls[-12:]), cl)
                # ---- memory at the stop point
                if dev.mem is None:
                    return Violation('c18:%s:no-device-memory' % eng, info, cl)
                for wa in words:
                    v = dev.mem.read_word(wa)
                    e = refm.peek(wa)
                    if v != e:
                        return Violation('c18:%s:memory-at-stop' % eng, dict(info, word=wa, got=v, expected=e), cl)
                cl.append('kind=' + kind)
        if k >= 2 and ({'flips own flip word', 'flips own jump word', 'flips next op'} & base.flags):
            nontrivial = True
    cl.append('runs~%d' % (10 ** len(str(runs)) // 10))
    return Ok(sorted(set(cl)), nontrivial, sample={'w': w, 'segments': case['segments'], 'io_calls': m, 'fault_runs': runs})


# ------------------------------------------------------------------ signals

def ring_image(w, P):
    """op0 -> ring of P ops (slots 2..P+1; slot 1 is skipped: an op there would read input);
    op i toggles bit i of the data region (after the ops)"""
    dw = 2 * w
    nslots = P + 2
    data_word0 = 2 * nslots  # first data word
    ndata = (nslots + w - 1) // w + 1
    words = []
    for i in range(nslots):
        if i == 1:
            words += [0, 0]
            continue
        flip = data_word0 * w + i
        nxt = 2 * dw if (i == 0 or i == nslots - 1) else (i + 1) * dw
        words += [flip, nxt]
    words += [0] * (ndata + (ndata % 2))
    return [[0, len(words), words]], data_word0


def run_signal_case(case):
    """one SIGINT case in a fresh process with a hard wall-clock limit: an engine that never polls signals cannot be
    stopped (not even by the SIGALRM guard) from inside its own process"""
    import json
    import subprocess
    import sys
    from pathlib import Path
    from fjverif import env
    tmp = engines.tmpdir()
    tag = os.urandom(4).hex()
    cpath, rpath = tmp / ('sigcase_%s.json' % tag), tmp / ('sigres_%s.json' % tag)
    cpath.write_text(json.dumps(case))
    cl = ['signal:' + case['engine']]
    proc = subprocess.Popen([sys.executable, '-m', 'fjverif.sig_worker', str(cpath), str(rpath)], env=env.child_env(os.environ[env.ENV_SNAPSHOT]),
                            cwd=os.path.dirname(os.path.dirname(os.path.dirname(os.path.abspath(__file__)))),
                            stdout=subprocess.DEVNULL, stderr=subprocess.PIPE)
    try:
        _, err = proc.communicate(timeout=150)
    except subprocess.TimeoutExpired:
        proc.kill()
        proc.communicate()
        return Violation('c18:signal:%s:run-not-stopped-by-sigint' % case['engine'],
                         {'note': 'the worker process was still running 150 s after SIGINT was sent (3 attempts, 30 s guard each)'}, cl)
    finally:
        for p_ in (cpath,):
            try:
                os.unlink(p_)
            except OSError:
                pass
    if not rpath.exists():
        tail = err.decode('latin-1')[-1500:]
        import signal as _signal
        if proc.returncode is not None and proc.returncode < 0 and proc.returncode != -_signal.SIGINT:
            return Violation('c18:signal:%s:process-killed-by-signal-%d' % (case['engine'], -proc.returncode), {'stderr': tail[-400:]}, cl)
        if proc.returncode == -_signal.SIGINT or 'KeyboardInterrupt' in tail:
            # the interrupt reached the worker outside the guarded run (interpreter start-up / shutdown, an import)
            return Discard('inconclusive: signal landed outside the run')
        raise env.HarnessError('signal worker died (rc=%s): %s' % (proc.returncode, tail))
    res = json.loads(rpath.read_text())
    os.unlink(rpath)
    if res['verdict'] == 'violation':
        return Violation(res['key'], res['detail'], res['classes'])
    if res['verdict'] == 'discard':
        return Discard(res['reason'])
    return Ok(res['classes'], True, sample=res['sample'])


def run_signal_case_inprocess(case):
    # A SIGINT that python turns into KeyboardInterrupt inside a gc callback / __del__ of the harness or of
    # Hypothesis is printed as "Exception ignored" and lost; the engine then never sees it.  Collection is switched
    # off for the case, and a run that is still going after the guard is repeated: only a signal that is not
    # honoured three times in a row is reported (a lost signal is a harness event, an ignored one is a defect).
    import gc
    was = gc.isenabled()
    gc.disable()
    try:
        r = None
        for _attempt in range(3):
            r = _run_signal_case(case)
            if not (isinstance(r, Violation) and r.key.endswith(':exception') and 'EngineTimeout' in r.detail.get('exc', '')):
                return r
        return r
    finally:
        if was:
            gc.enable()


def _run_signal_case(case):
    w, P = case['w'], case['P']
    segs, data_word0 = ring_image(w, P)
    path = engines.tmpdir() / 'c18s.fjm'
    engines.write_image(path, w, segs, 0)
    dev = engines.make_rec_device([])
    import subprocess
    # a real SIGINT from outside the process (a python thread could not run while the native loop holds the GIL)
    knobs = {'no_flat': True} if case.get('no_flat') else None
    o = None
    killer = None
    try:
        try:
            killer = subprocess.Popen(['sh', '-c', 'sleep %.3f; kill -INT %d' % (case['delay_ms'] / 1000.0, os.getpid())])
            o = engines.run_engine(path, case['engine'], dev, last_len=case['last_len'], knobs=knobs, timeout=30)
        finally:
            # absorb the signal if it is still pending / lands late
            for _ in range(3):
                try:
                    if killer is not None:
                        killer.wait()
                    time.sleep(0.01)
                    break
                except KeyboardInterrupt:
                    o = None
    except KeyboardInterrupt:
        return Discard('inconclusive: signal landed outside the run')
    if o is None:
        return Discard('inconclusive: signal landed outside the run')
    cl = ['signal:' + case['engine']]
    if o.exc is not None:
        if isinstance(o.exc, KeyboardInterrupt):
            return Discard('inconclusive: signal landed outside the run')
        return Violation('c18:signal:%s:exception' % case['engine'], {'exc': repr(o.exc)}, cl)
    if o.cause != 'KeyboardInterrupt':
        return Violation('c18:signal:%s:not-keyboardinterrupt' % case['engine'], {'got': o.summary()}, cl)
    N = o.ops
    # expected memory after exactly N ops: op0 once, then the ring (slots 2..P+1)
    nops = P + 2
    count = [0] * nops
    if N >= 1:
        count[0] = 1
        rest = N - 1
        for i in range(2, nops):
            count[i] = rest // P + (1 if (i - 2) < rest % P else 0)
    exp_bits = [c & 1 for c in count]
    got_bits = []
    for i in range(nops):
        word = dev.mem.read_word(data_word0 + i // w)
        got_bits.append((word >> (i % w)) & 1)
    if got_bits != exp_bits:
        # which op would be next?
        nxt = 0 if N == 0 else 2 + (N - 1) % P
        alt = list(exp_bits)
        alt[nxt] ^= 1
        if case['engine'] != 'native' and got_bits == alt:
            return Violation('c18:python-loops:sigint-lands-mid-op', {'engine': case['engine'], 'ops': N, 'next_op': nxt}, cl)
        return Violation('c18:signal:%s:memory-not-after-N-ops' % case['engine'], {'ops': N, 'got': got_bits, 'expected': exp_bits}, cl)
    if case['last_len'] and o.last_ops is not None:
        # executed ips: op0, then the ring (slots 2..P+1).  The list must be the tail of the executed sequence; the op that was
        # about to run when the signal was honoured may already be registered (the python loops register before executing)
        L = case['last_len']

        def ip_of(k):
            return 0 if k == 0 else (2 + (k - 1) % P) * 2 * w
        tails = [[ip_of(k) for k in range(max(0, n - L), n)] for n in (N, N + 1)]
        if list(o.last_ops) not in tails:
            return Violation('c18:signal:%s:last-ops-not-the-tail-of-the-executed-ops' % case['engine'],
                             {'ops': N, 'got': list(o.last_ops), 'expected_one_of': tails, 'ring_ops': P}, cl)
        cl.append('last-ops on signal checked')
    cl.append('interrupted after N ops, memory exact')
    return Ok(cl, True, sample={'signal_case': case, 'ops_at_interrupt': N})


def run_case(case):
    if case.get('kind') == 'signal':
        return run_signal_case(case)
    return run_fault_case(case)
