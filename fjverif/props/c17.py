"""C17 - bit-level IO devices are byte-exact."""
import io
import itertools

from hypothesis import strategies as st

from fjverif.imagegen import D
from fjverif.runner import Ok, Violation, Discard

ID = 'C17'
LEVEL = 'exploration'
RULE = ('histories of device calls (write_bit / read_bit / get_output(allow_incomplete) in any interleaving) on FixedIO, '
        'StandardIO (module-level stdin/stdout replaced by StringIO carrying code points 0..255, verbose and silent), '
        'KeyboardIO and BrokenIO against a bit-list model: lsb-first packing, IncompleteOutput iff bit count % 8 != 0 and '
        'not allowed, IOReadOnEOF exactly on the read after the last input bit and on every later read.  Exhaustive: '
        'every write sequence up to 12 (quick) / 16 (thorough) bits on the three collecting devices and every input of '
        '<= 1 (quick) / 2 (thorough) bytes with every read count.  KeyboardIO: event scripts (unsorted tics, ties, '
        'negative and huge tics, all keycodes, from_text with comments / blank / malformed lines) x read counts against '
        'the polling protocol model.  non-trivial = >= 9 bits written or read, ending mid-byte or crossing end of input')
ASSUMPTIONS = ['StandardIO is claimed for a text layer that maps bytes 1:1 to code points (what PYTHONIOENCODING=latin-1 gives)']


def pack(bits):
    return bytes(sum(bits[8 * i + j] << j for j in range(8)) for i in range(len(bits) // 8))


def make_device(name, inp):
    from flipjump.interpreter.io_devices.FixedIO import FixedIO
    import importlib
    std_mod = importlib.import_module('flipjump.interpreter.io_devices.StandardIO')
    from flipjump.interpreter.io_devices.KeyboardIO import KeyboardIO, ScriptedKeyEventSource
    if name == 'fixed':
        return FixedIO(bytes(inp)), None
    if name in ('standard', 'standard-verbose'):
        sin = io.StringIO(''.join(chr(b) for b in inp))
        sout = io.StringIO()
        std_mod.stdin = sin
        std_mod.stdout = sout
        return std_mod.StandardIO(name == 'standard-verbose'), sout
    if name == 'keyboard':
        return KeyboardIO(ScriptedKeyEventSource([])), None
    raise ValueError(name)


def restore_std():
    import sys
    import importlib
    std_mod = importlib.import_module('flipjump.interpreter.io_devices.StandardIO')
    std_mod.stdin = sys.stdin
    std_mod.stdout = sys.stdout


@st.composite
def history_cases(draw):
    d = D(draw)
    dev = d.choice(['fixed', 'standard', 'standard-verbose', 'keyboard-out'])
    inp = [d.int(0, 255) for _ in range(d.choice([0, 0, 1, 2, 3, 5]))]
    ops = []
    for _ in range(d.int(1, 60)):
        r = d.pct()
        if r < 50:
            ops.append(['w', d.int(0, 1)])
        elif r < 85 and dev != 'keyboard-out':
            ops.append(['r'])
        else:
            ops.append(['g', d.bool()])
    return {'kind': 'history', 'device': dev, 'input': inp, 'ops': ops}


@st.composite
def keyboard_cases(draw):
    d = D(draw)
    events = []
    for _ in range(d.int(0, 8)):
        tic = d.choice([0, 0, 1, 2, 3, d.int(0, 30), -1, -5, 10 ** 6, 1 << 40, d.int(0, 6)])
        events.append([tic, d.bool(), d.choice([0, 1, 0x41, 0x7F, 0x80, 0xFF, d.int(0, 255)])])
    via_text = d.pct() < 45
    text_noise = []
    if via_text:
        for _ in range(d.int(0, 3)):
            text_noise.append([d.int(0, len(events)), d.choice(['', '   ', '# comment', '#1, down, 3'])])
    bad = None
    if via_text and d.pct() < 30:
        bad = [d.int(0, len(events)), d.choice(['1, down', '1, sideways, 3', 'x, down, 3', '1, up, 256', '1, up, -1', '1,up,3,4', '1, down, 0x1G', ', ,'])]
    return {'kind': 'keyboard', 'events': events, 'via_text': via_text, 'noise': text_noise, 'bad_line': bad,
            'hex_style': d.bool(), 'reads': d.int(0, 200), 'writes': [d.int(0, 1) for _ in range(d.int(0, 20))]}


def families(tier):
    q = tier == 'quick'
    return [{'name': 'call-histories', 'strategy': history_cases, 'examples': 1500 if q else 60000},
            {'name': 'keyboard-protocol', 'strategy': keyboard_cases, 'examples': 800 if q else 40000}]


def enumerations(tier):
    max_bits = 12 if tier == 'quick' else 16
    max_in = 1 if tier == 'quick' else 2

    def writes(shard, nshards):
        k = 0
        for L in range(0, max_bits + 1):
            for v in range(1 << L):
                k += 1
                if k % nshards != shard:
                    continue
                yield {'kind': 'writes', 'len': L, 'value': v}

    def inputs(shard, nshards):
        k = 0
        for n in range(0, max_in + 1):
            for data in itertools.product(range(256), repeat=n):
                k += 1
                if k % nshards != shard:
                    continue
                yield {'kind': 'inputs', 'data': list(data)}
    return [{'name': 'all-write-sequences<=%dbits' % max_bits, 'cases': writes, 'exhaustive': True},
            {'name': 'all-inputs<=%dbytes-all-read-counts' % max_in, 'cases': inputs, 'exhaustive': True}]


def run_history(case):
    from flipjump.utils.exceptions import IOReadOnEOF, IncompleteOutput
    name = case['device']
    real_name = 'keyboard' if name == 'keyboard-out' else name
    dev, sout = make_device(real_name, case['input'])
    try:
        in_bits = [(b >> i) & 1 for b in case['input'] for i in range(8)]
        rpos = 0
        written = []
        cl = ['device=' + name]
        for i, op in enumerate(case['ops']):
            if op[0] == 'w':
                dev.write_bit(bool(op[1]))
                written.append(op[1])
            elif op[0] == 'r':
                try:
                    b = dev.read_bit()
                    got = int(b)
                    if not isinstance(b, bool):
                        return Violation('c17:%s:read_bit-not-bool' % name, {'at': i, 'got': repr(b)}, cl)
                except IOReadOnEOF:
                    got = 'EOF'
                exp = in_bits[rpos] if rpos < len(in_bits) else 'EOF'
                if got != exp:
                    return Violation('c17:%s:read-bit' % name, {'at': i, 'read_index': rpos, 'got': got, 'expected': exp, 'input': case['input']}, cl)
                if exp == 'EOF':
                    cl.append('read at/after end of input')
                else:
                    rpos += 1
            else:
                allow = op[1]
                try:
                    out = dev.get_output(allow_incomplete_output=allow)
                    got = out
                except IncompleteOutput:
                    got = 'Incomplete'
                exp = 'Incomplete' if (len(written) % 8 and not allow) else pack(written)
                if got != exp:
                    return Violation('c17:%s:get_output' % name, {'at': i, 'got': repr(got), 'expected': repr(exp), 'bits': written[-20:]}, cl)
                if len(written) % 8:
                    cl.append('get_output mid-byte')
        if sout is not None:
            shown = sout.getvalue()
            exp_shown = ''.join(chr(b) for b in pack(written)) if name == 'standard-verbose' else ''
            if shown != exp_shown:
                return Violation('c17:%s:stdout-text' % name, {'got': repr(shown)[:80], 'expected': repr(exp_shown)[:80]}, cl)
        nt = (len(written) >= 9 or rpos >= 9) and (len(written) % 8 != 0 or 'read at/after end of input' in cl)
        return Ok(sorted(set(cl)), nt)
    finally:
        restore_std()


def run_writes(case):
    from flipjump.utils.exceptions import IncompleteOutput
    L, v = case['len'], case['value']
    bits = [(v >> i) & 1 for i in range(L)]
    try:
        for name in ('fixed', 'standard', 'keyboard'):
            dev, _ = make_device(name, [])
            for b in bits:
                dev.write_bit(bool(b))
            if dev.get_output(allow_incomplete_output=True) != pack(bits):
                return Violation('c17:%s:get_output' % name, {'bits': bits}, [])
            try:
                out = dev.get_output()
                ok = (L % 8 == 0 and out == pack(bits))
            except IncompleteOutput:
                ok = L % 8 != 0
            if not ok:
                return Violation('c17:%s:incomplete-output-signal' % name, {'bits': bits}, [])
    finally:
        restore_std()
    return Ok(['enumerated writes'], L >= 9 and L % 8 != 0)


def run_inputs(case):
    from flipjump.utils.exceptions import IOReadOnEOF
    data = case['data']
    in_bits = [(b >> i) & 1 for b in data for i in range(8)]
    try:
        for name in ('fixed', 'standard'):
            dev, _ = make_device(name, data)
            for k in range(len(in_bits) + 3):
                try:
                    got = int(dev.read_bit())
                except IOReadOnEOF:
                    got = 'EOF'
                exp = in_bits[k] if k < len(in_bits) else 'EOF'
                if got != exp:
                    return Violation('c17:%s:read-bit' % name, {'read_index': k, 'got': got, 'expected': exp, 'input': data}, [])
    finally:
        restore_std()
    return Ok(['enumerated inputs'], len(in_bits) >= 9)


def run_keyboard(case):
    from flipjump.interpreter.io_devices.KeyboardIO import KeyboardIO, ScriptedKeyEventSource, KeyEvent
    from flipjump.utils.exceptions import IODeviceException, IOReadOnEOF
    events = case['events']
    cl = ['device=keyboard']
    if case['via_text']:
        lines = []
        for tic, down, code in events:
            ds = ('down' if down else 'up') if case['hex_style'] else ('1' if down else '0')
            if case['hex_style'] and tic >= 0:
                lines.append('%s, %s, %s' % (hex(tic), ds.upper() if tic % 2 else ds, hex(code)))
            else:
                lines.append(' %d ,%s,  %d ' % (tic, ds, code))
        for pos, txt in sorted(case['noise'], key=lambda x: -x[0]):
            lines.insert(min(pos, len(lines)), txt)
        if case['bad_line']:
            lines.insert(min(case['bad_line'][0], len(lines)), case['bad_line'][1])
        try:
            src = ScriptedKeyEventSource.from_text('\n'.join(lines))
            if case['bad_line']:
                return Violation('c17:keyboard:malformed-script-accepted', {'line': case['bad_line'][1]}, cl)
        except IODeviceException:
            if case['bad_line']:
                return Ok(cl + ['malformed script rejected'], True)
            return Violation('c17:keyboard:valid-script-rejected', {'lines': lines[:10]}, cl)
        except Exception as e:
            return Violation('c17:keyboard:raw-exception:' + type(e).__name__, {'lines': lines[:10], 'exc': repr(e)[:200]}, cl)
        cl.append('from_text')
    else:
        src = ScriptedKeyEventSource([KeyEvent(t, bool(dn), c) for t, dn, c in events])
    dev = KeyboardIO(src)
    # model: stable sort by tic; one poll per exhausted queue
    order = sorted(range(len(events)), key=lambda i: events[i][0])
    nxt = 0
    polls = 0
    queue = []
    got_bits = []
    exp_bits = []
    for k in range(case['reads']):
        if not queue:
            if nxt < len(order) and events[order[nxt]][0] <= polls:
                _, down, code = events[order[nxt]]
                nxt += 1
                status = 9 if down else 8
                queue = [(status >> i) & 1 for i in range(4)] + [(code >> i) & 1 for i in range(8)]
            else:
                queue = [0, 0, 0, 0]
            polls += 1
        exp_bits.append(queue.pop(0))
        try:
            got_bits.append(int(dev.read_bit()))
        except IOReadOnEOF:
            return Violation('c17:keyboard:eof', {'read_index': k}, cl)
        if got_bits[-1] != exp_bits[-1]:
            return Violation('c17:keyboard:protocol-bit', {'read_index': k, 'got': got_bits[-16:], 'expected': exp_bits[-16:], 'events': events}, cl)
    for b in case['writes']:
        dev.write_bit(bool(b))
    if dev.get_output(allow_incomplete_output=True) != pack(case['writes']):
        return Violation('c17:keyboard:get_output', {'bits': case['writes']}, cl)
    if nxt:
        cl.append('events delivered')
    if len({e[0] for e in events}) < len(events):
        cl.append('tied tics')
    return Ok(cl, case['reads'] >= 9 and nxt >= 1)


def run_broken():
    from flipjump.interpreter.io_devices.BrokenIO import BrokenIO
    from flipjump.utils.exceptions import BrokenIOUsed
    dev = BrokenIO()
    for f in (dev.read_bit, lambda: dev.write_bit(True), lambda: dev.write_bit(False), dev.get_output,
              lambda: dev.get_output(allow_incomplete_output=True)):
        try:
            f()
            return False
        except BrokenIOUsed:
            pass
    return True


def run_case(case):
    k = case['kind']
    if k == 'history':
        if not run_broken():
            return Violation('c17:broken:action-did-not-raise', {}, [])
        return run_history(case)
    if k == 'keyboard':
        return run_keyboard(case)
    if k == 'writes':
        return run_writes(case)
    return run_inputs(case)
