"""C06 - writing then reading an .fjm preserves the memory image in every version."""
import os

from hypothesis import strategies as st

from fjverif import engines, fjmref
from fjverif.imagegen import D
from fjverif.runner import Ok, Violation, Discard

ID = 'C06'
LEVEL = 'exploration'
RULE = ('cases = writer call sequences (add_data / add_segment / add_simple_segment_with_data) over w x lzma preset, '
        'replayed at all four versions: data shorter than the segment by 0/2/998/1000/1002/10^6 words, segments at 0, '
        'adjacent, at 2^14, 2^57, top of space, beyond the address space; words near 0 / 2^w-1 / their own address; '
        'shared data ranges (legal in v0/v1); ~25% carry one unrepresentable request (odd data length, data range '
        'outside the pool, word outside [0,2^w), field outside u64, odd start/length, overlap, zero length, data longer '
        'than segment).  Oracle = dict model of the image: Reader segments, every in-segment word (memory / '
        'zeros_boundaries / get_word), out-of-segment addresses invalid, reference decoder fjmref agrees with the file, '
        'unrepresentable request => FlipJumpWriteFjmException.  Second family: small programs assembled at v0..v3 must '
        'load identically.  non-trivial = >= 2 segments, one at word address >= 2^14, and a zero tail or shared data')
ASSUMPTIONS = ['reference codec fjverif/fjmref.py written from the format docstring in fjm_consts.py',
               'a data range that lies beyond the pool at add_segment time but is filled by a later add_data is not generated '
               '(the documented call order is add_data then add_segment)']

U64 = 1 << 64


def word_value(d, w, s_hint):
    mask = (1 << w) - 1
    r = d.pct()
    if r < 25:
        return d.int(0, min(mask, 4 * w))
    if r < 40:
        return mask - d.int(0, min(mask, 70))
    if r < 60:
        return (s_hint * w + d.int(-2 * w, 6 * w)) & mask
    if r < 65:
        return 0
    return d.int(0, mask)


@st.composite
def writer_cases(draw):
    d = D(draw)
    w = d.choice([8, 16, 32, 64, 64])
    ww = w.bit_length() - 1
    space = 1 << (w - ww)
    ops = []
    pool_len = 0
    segs = []  # (start, length)
    nseg = d.int(1, 5)
    fault = d.pct() < 25
    cont = d.pct() < 50   # after a refused add_segment the caller goes on using the writer (the refused call must have had no effect)
    fault_at = d.int(0, nseg - 1) if fault else -1
    fault_kind = d.choice(['odd-data-length', 'data-outside-pool', 'word-too-big', 'word-negative', 'start-out-of-u64',
                           'length-out-of-u64', 'negative-start', 'odd-start', 'odd-length', 'overlap', 'zero-length',
                           'data-longer-than-segment', 'data-overlap']) if fault else None
    anchors = [0, 0, 2 * d.int(1, 40), (1 << 14) - 2 * d.int(0, 4), 1 << 14, space - 2 * d.int(1, 6)]
    if w == 64:
        anchors += [1 << 57, (1 << 40) + 2 * d.int(0, 9), (1 << 63) + 2 * d.int(0, 5), U64 - 2 * d.int(1, 5)]
    if w <= 32:
        anchors += [space + 2 * d.int(0, 50), (1 << 40)]
    for k in range(nseg):
        dl = d.choice([0, 2, 2, 4, 6, 8, 2 * d.int(0, 20), 2 * d.int(0, 20), 2 * d.int(20, 120), 998, 1000, 3000])
        tail = d.choice([0, 0, 0, 2, 10, 998, 1000, 1002, 10 ** 6, 2 * d.int(0, 30)])
        length = dl + tail
        if length == 0:
            length = 2
        # placement
        for _ in range(8):
            a = d.choice(anchors)
            if d.pct() < 30 and segs:
                ps, pl = d.choice(segs)
                a = ps + pl + d.choice([0, 0, 2, 2 * d.int(0, 10)])
            a = max(0, a) & ~1
            if a + length <= U64 and all(a + length <= s or s + l <= a for s, l in segs):
                break
        else:
            continue
        if not (a + length <= U64 and all(a + length <= s or s + l <= a for s, l in segs)):
            continue
        if dl <= 24:
            data = [word_value(d, w, a + i) for i in range(dl)]
        else:
            # long data: a pure function of a few drawn numbers (keeps the example small for the shrinker)
            sd, style = d.int(0, (1 << 30) - 1), d.int(0, 2)
            mask_ = (1 << w) - 1
            data = []
            for i in range(dl):
                sd = (sd * 6364136223846793005 + 1442695040888963407) & ((1 << 64) - 1)
                if style == 0 or (style == 2 and i % 7 == 3):
                    data.append((sd >> 11) & mask_)
                elif style == 1:
                    data.append(((a + i) * w + ((sd >> 20) % (8 * w)) - 2 * w) & mask_)
                else:
                    data.append(mask_ - ((sd >> 30) % 50))
        share = (not fault) and segs and pool_len >= 2 and d.pct() < 12
        this_fault = fault_kind if k == fault_at else None
        if this_fault == 'word-too-big' and data:
            data[d.int(0, len(data) - 1)] = (1 << w) + d.choice([0, 1, d.int(0, 1 << w)])
        elif this_fault == 'word-negative' and data:
            data[d.int(0, len(data) - 1)] = -d.int(1, 300)
        elif this_fault in ('word-too-big', 'word-negative'):
            data = [(1 << w) if this_fault == 'word-too-big' else -1, 0]
            dl = 2
            length = max(length, 2)
        simple = (this_fault is None or this_fault in ('word-too-big', 'word-negative')) and tail == 0 and dl > 0 and d.pct() < 30
        if simple:
            ops.append(['simple', a, data])
            pool_len += len(data)
            segs.append((a, len(data)))
            continue
        if share:
            ds = d.int(0, pool_len - 2)
            sdl = 2 * d.int(1, (pool_len - ds) // 2)
            length = max(length, sdl + tail)
            if not (a + length <= U64 and all(a + length <= s or s + l <= a for s, l in segs)):
                continue
            ops.append(['segment', a, length, ds, sdl, 'shared'])
            segs.append((a, length))
            continue
        if d.pct() < 15:
            # an odd-length, unreferenced filler: the next data range starts at an odd pool index
            filler = [word_value(d, w, 1) for _ in range(d.choice([1, 1, 3, 5]))]
            ops.append(['data', filler])
            pool_len += len(filler)
        ops.append(['data', data])
        ds = pool_len
        pool_len += len(data)
        sdl = len(data)
        if this_fault == 'odd-data-length':
            if sdl == 0:
                continue
            sdl -= 1
        elif this_fault == 'data-outside-pool':
            # beyond the final pool as well: nothing is added afterwards that would fill it
            ds = pool_len + 1000 + d.int(0, 50) * 2
            sdl = max(2, sdl)
            length = max(length, sdl)
        elif this_fault == 'start-out-of-u64':
            a = U64 + 2 * d.int(0, 5)
        elif this_fault == 'length-out-of-u64':
            length = U64 + 2 * d.int(0, 4) - (a if d.bool() else 0)
        elif this_fault == 'negative-start':
            a = -2 * d.int(1, 40)
        elif this_fault == 'odd-start':
            a += 1
        elif this_fault == 'odd-length':
            length += 1
        elif this_fault == 'overlap' and segs:
            ps, pl = d.choice(segs)
            kind = d.int(0, 3)
            if kind == 0:
                a, length = ps, max(2, length)
            elif kind == 1:  # enclosing
                a, length = max(0, ps - 2), pl + 4
            elif kind == 2:  # inside
                a, length = ps + (2 if pl > 2 else 0), 2
            else:  # tail touch
                a = ps + pl - 2
            sdl = min(sdl, length) & ~1
        elif this_fault == 'zero-length':
            length, sdl = 0, 0
        elif this_fault == 'data-longer-than-segment':
            if sdl < 2:
                continue
            length = sdl - 2 if sdl > 2 else 0
            if length == 0:
                length = 2
                ops[-1][1].extend([1, 2])
                pool_len += 2
                sdl += 2
        elif this_fault == 'data-overlap' and pool_len > sdl:
            # overlapping data ranges: legal in v0/v1, must be refused in v2/v3
            kind = d.int(0, 2)
            if kind == 0 and ds >= 2:
                ds -= 2
            elif kind == 1 and ds >= 2:
                ds, sdl = max(0, ds - 2), sdl + 2  # encloses the previous range's tail
            else:
                ds, sdl = 0, pool_len  # encloses every earlier range
            length = max(length, sdl + tail)
            if not (a + length <= U64 and all(a + length <= s or s + l <= a for s, l in segs)):
                continue
        ops.append(['segment', a, length, ds, sdl, this_fault or ''])
        if this_fault is None or this_fault == 'data-overlap':
            segs.append((a, length))
        elif cont and this_fault in ('overlap', 'odd-start', 'odd-length', 'zero-length', 'start-out-of-u64', 'negative-start') and sdl >= 2 and ds + sdl <= pool_len:
            # the caller retries the refused request at a free address with the same data range
            rl = sdl + d.choice([0, 0, 2, 1000])
            for _ in range(8):
                a2 = d.choice(anchors) & ~1
                if 0 <= a2 and a2 + rl <= U64 and all(a2 + rl <= s_ or s_ + l_ <= a2 for s_, l_ in segs):
                    ops.append(['segment', a2, rl, ds, sdl, 'retry'])
                    segs.append((a2, rl))
                    break
    if d.pct() < 15:
        ops.append(['data', [word_value(d, w, 0) for _ in range(d.int(1, 5))]])  # unreferenced trailing data
    return {'kind': 'writer', 'w': w, 'preset': d.int(0, 9), 'ops': ops, 'continue_after_reject': cont}


SMALL_PROGRAMS = [
    "a: ;b\nb: ;a+dw\nloop: ;loop\n",
    "wflip lbl, 0x35, next\nnext: ;next\nlbl: ;0\n",
    "x = 5\n;start\npad 4\nstart: x;start+dw\n;$-dw\nsegment 0x400*w\nq: ;q\n",
    "reserve 6*dw\n",
]


@st.composite
def asm_cases(draw):
    d = D(draw)
    w = d.choice([8, 16, 32, 64])
    n = d.int(1, 10)
    lines = []
    for i in range(n):
        r = d.pct()
        if r < 40:
            lines.append('%d;l%d' % (d.int(0, (1 << w) - 1) if d.pct() < 30 else d.int(0, 200), d.int(0, n - 1)))
        elif r < 60:
            lines.append('wflip l%d+dw, %d, l%d' % (d.int(0, n - 1), d.int(0, (1 << w) - 1) if d.pct() < 40 else d.int(0, 255), d.int(0, n - 1)))
        elif r < 70:
            lines.append('pad %d' % d.choice([1, 2, 4, 8]))
        elif r < 80:
            lines.append('reserve %d*dw' % d.choice([1, 3, 500, 600]))
        elif r < 88 and w >= 16:
            lines.append('segment %d*dw' % (200 * (len([x for x in lines if x.startswith('segment')]) + 1) + d.int(0, 40)))
        else:
            lines.append(';$-dw')
    body = []
    for i, ln in enumerate(lines):
        body.append('l%d:' % i)
        body.append(ln)
    for i in range(len(lines), n):
        body.append('l%d:' % i)
    return {'kind': 'asm', 'w': w, 'src': ';l0\n' + '\n'.join(body) + '\nend: ;end\n', 'preset': d.int(0, 9)}


def families(tier):
    q = tier == 'quick'
    return [{'name': 'writer-sequences', 'strategy': writer_cases, 'examples': 500 if q else 25000},
            {'name': 'assembled-programs', 'strategy': asm_cases, 'examples': 120 if q else 6000}]


# ------------------------------------------------------------------ model

def model(case, version):
    """-> (pool, segments[(s,l,ds,dl)], reject_index or None, reason)"""
    w = case['w']
    pool = []
    segs = []
    reject = None
    rej = set()
    for idx, op in enumerate(case['ops']):
        if op[0] == 'data':
            if any((not isinstance(x, int)) or x < 0 or x >= (1 << w) for x in op[1]):
                reject = reject if reject is not None else (idx, 'word out of range')
            pool.extend(op[1])
            continue
        if op[0] == 'simple':
            _, a, data = op
            if any(x < 0 or x >= (1 << w) for x in data):
                reject = reject if reject is not None else (idx, 'word out of range')
            ds = len(pool)
            pool.extend(data)
            a_, l_, ds_, dl_ = a, len(data), ds, len(data)
        else:
            _, a_, l_, ds_, dl_ = op[:5]
        why = None
        if l_ <= 0:
            why = 'length <= 0'
        elif l_ < dl_:
            why = 'data longer than segment'
        elif a_ % 2 or l_ % 2:
            why = 'odd start/length'
        elif a_ < 0 or l_ >= U64 or a_ + l_ > U64:
            why = 'outside u64'
        elif dl_ % 2 or dl_ < 0:
            why = 'odd data length'
        elif ds_ < 0 or ds_ + dl_ > len(pool):
            why = 'data range outside the pool'
        elif any(not (a_ + l_ <= s or s + l <= a_) for s, l, _, _ in segs):
            why = 'address overlap'
        elif version >= 2 and dl_ > 0 and any(dl > 0 and not (ds_ + dl_ <= ds or ds + dl <= ds_) for _, _, ds, dl in segs):
            why = 'data overlap (relative versions)'
        if why:
            if reject is None:
                reject = (idx, why)
            if op[0] == 'segment':
                rej.add(idx)
            continue
        segs.append((a_, l_, ds_, dl_))
    return pool, segs, reject, rej


def reader_value(reader, wa):
    v = reader.memory.get(wa)
    if v is not None:
        return v
    for a, b in reader.zeros_boundaries:
        if a <= wa < b:
            return 0
    return None


def probe_addresses(segs, w):
    out = set()
    for s, l, ds, dl in segs:
        if l <= 3000:
            out.update(range(s, s + l))
        else:
            out.update(range(s, s + min(l, 40)))
            out.update(range(s + l - 6, s + l))
            out.update(range(max(s, s + dl - 4), min(s + l, s + dl + 4)))
            for k in (998, 999, 1000, 1001, 1002):
                if dl + k < l:
                    out.add(s + dl + k)
        out.update((s - 1, s - 2, s + l, s + l + 1))
    return sorted(x for x in out if 0 <= x < U64)


def check_file(path, w, version, pool, segs, cl, tag):
    """compare the written file with the model. -> Violation or None"""
    from flipjump.fjm.fjm_reader import Reader
    from flipjump.utils.exceptions import FlipJumpReadFjmException, FlipJumpRuntimeMemoryException
    mask = (1 << w) - 1
    ww = w.bit_length() - 1

    def expected(wa):
        for s, l, ds, dl in segs:
            if s <= wa < s + l:
                return pool[ds + wa - s] if wa - s < dl else 0
        return None
    try:
        r = Reader(path)
    except FlipJumpReadFjmException as e:
        return Violation('c06:reader-refuses-written-file', {'version': version, 'exc': repr(e), 'tag': tag}, cl)
    except Exception as e:
        return Violation('c06:reader-raw-exception:' + type(e).__name__, {'version': version, 'exc': repr(e)}, cl)
    got_segs = [(s.segment_start, s.segment_length) for s in r.memory_segments]
    if got_segs != [(s, l) for s, l, _, _ in segs]:
        return Violation('c06:segments-differ', {'version': version, 'expected': [(s, l) for s, l, _, _ in segs][:8], 'got': got_segs[:8]}, cl)
    if r.memory_width != w or r.version.value != version:
        return Violation('c06:header-differs', {'version': version, 'got': [r.memory_width, r.version.value]}, cl)
    addrs = probe_addresses(segs, w)
    for wa in addrs:
        e = expected(wa)
        g = reader_value(r, wa)
        if g != e:
            return Violation('c06:word-differs', {'version': version, 'word': wa, 'expected': e, 'got': g, 'tag': tag}, cl)
    # no stray keys outside every segment
    if len(r.memory) <= 20000:
        for k in r.memory:
            if expected(k) is None:
                return Violation('c06:word-outside-segments', {'version': version, 'word': k}, cl)
    # get_word view, for addresses inside the width's address space
    space = 1 << (w - ww)
    n = 0
    for wa in addrs:
        if wa >= space:
            continue
        n += 1
        if n > 400:
            break
        e = expected(wa)
        try:
            g = r.get_word(wa << ww)
        except FlipJumpRuntimeMemoryException:
            g = None
        if g != e:
            return Violation('c06:get_word-differs', {'version': version, 'word': wa, 'expected': e, 'got': g}, cl)
    # the file is the documented format: the reference decoder agrees
    with open(path, 'rb') as f:
        raw = f.read()
    img = fjmref.decode(raw)
    if isinstance(img, fjmref.Reject):
        return Violation('c06:file-not-in-documented-format', {'version': version, 'reject': repr(img)}, cl)
    if (img.w, img.version, [(s, l) for s, l, _, _ in img.segments]) != (w, version, [(s, l) for s, l, _, _ in segs]):
        return Violation('c06:reference-decoder-header-differs', {'version': version}, cl)
    for wa in addrs:
        e = expected(wa)
        g = img.value_at(wa)
        if g != e:
            return Violation('c06:reference-decoder-word-differs', {'version': version, 'word': wa, 'expected': e, 'got': g}, cl)
    return None


def run_writer_case(case):
    from flipjump.fjm import fjm_writer
    from flipjump.fjm.fjm_consts import FJMVersion
    from flipjump.utils.exceptions import FlipJumpWriteFjmException
    w = case['w']
    cl = ['w=%d' % w, 'family=writer']
    nontrivial = False
    for version in (0, 1, 2, 3):
        pool, segs, reject, rej = model(case, version)
        path = engines.tmpdir() / ('c06_v%d.fjm' % version)
        if os.path.exists(path):
            os.unlink(path)
        kw = {'lzma_preset': case['preset']} if version == 3 else {}
        wr = fjm_writer.Writer(path, w, FJMVersion(version), **kw)
        raised = None
        raised_at = None
        cont = bool(case.get('continue_after_reject'))
        data_rejects = reject is not None and reject[0] not in rej   # a refused data / simple op ends the sequence
        continued = set()
        for idx, op in enumerate(case['ops'] + [['write']]):
            try:
                if op[0] == 'data':
                    wr.add_data(list(op[1]))
                elif op[0] == 'simple':
                    wr.add_simple_segment_with_data(op[1], list(op[2]))
                elif op[0] == 'segment':
                    wr.add_segment(op[1], op[2], op[3], op[4])
                else:
                    wr.write_to_file()
            except FlipJumpWriteFjmException as e:
                if cont and not data_rejects and idx in rej:
                    continued.add(idx)
                    continue
                raised, raised_at = e, idx
                break
            except Exception as e:  # raw exception
                why = reject[1] if reject else 'none'
                return Violation('c06:writer-raw-exception:%s:%s' % (type(e).__name__, why.replace(' ', '-')),
                                 {'version': version, 'at_op': idx, 'op': str(op)[:200], 'exc': repr(e), 'model_reject': reject}, cl)
        if reject is not None and cont and not data_rejects and raised is None and continued == rej:
            # every refused add_segment raised, the caller went on: the file must hold exactly the accepted requests
            cl.append('unrepresentable:' + reject[1])
            cl.append('writer used after a refused request')
            reject = None
        if reject is not None:
            cl.append('unrepresentable:' + reject[1])
            if raised is None:
                # the writer accepted everything: what does the file do?
                detail = {'version': version, 'model_reject': reject, 'op': str(case['ops'][reject[0]])[:200]}
                try:
                    from flipjump.fjm.fjm_reader import Reader
                    Reader(path)
                    detail['reader'] = 'accepts the file'
                except Exception as e:
                    detail['reader'] = repr(e)[:200]
                return Violation('c06:writer-accepts:' + reject[1].replace(' ', '-'), detail, cl)
            if raised_at < reject[0]:
                return Violation('c06:writer-rejects-valid-request', {'version': version, 'at_op': raised_at, 'exc': repr(raised),
                                                                      'op': str(case['ops'][raised_at])[:200]}, cl)
            continue
        if raised is not None:
            return Violation('c06:writer-rejects-valid-request', {'version': version, 'at_op': raised_at, 'exc': repr(raised),
                                                                  'op': str((case['ops'] + [['write']])[raised_at])[:200]}, cl)
        v = check_file(path, w, version, pool, segs, cl, 'writer')
        if v is not None:
            return v
        cl.append('roundtrip v%d' % version)
        # the same Writer object writes its file once more: nothing it did for the first write may change the second
        try:
            wr.write_to_file()
        except Exception as e:  # noqa
            return Violation('c06:second-write-raises:%s' % type(e).__name__, {'version': version, 'exc': repr(e)[:200]}, cl)
        v = check_file(path, w, version, pool, segs, cl, 'second write of the same Writer')
        if v is not None:
            return v
        if len(segs) >= 2 and any(s >= (1 << 14) for s, _, _, _ in segs):
            shared = any(op[0] == 'segment' and op[5] in ('shared', 'data-overlap') for op in case['ops'])
            if shared or any(l > dl for _, l, _, dl in segs):
                nontrivial = True
        if any(ds % 2 and dl > 0 for _, _, ds, dl in segs):
            cl.append('odd data start')
        if any(l - dl >= 1000 for _, l, _, dl in segs):
            cl.append('lazy zero tail')
        if any(0 < l - dl < 1000 for _, l, _, dl in segs):
            cl.append('dense zero tail')
    return Ok(sorted(set(cl)), nontrivial)


def run_asm_case(case):
    import contextlib
    import io
    import flipjump
    from flipjump.fjm.fjm_consts import FJMVersion
    from flipjump.fjm.fjm_reader import Reader
    from flipjump.utils.exceptions import FlipJumpException
    w = case['w']
    cl = ['w=%d' % w, 'family=asm']
    tmp = engines.tmpdir()
    src = tmp / 'c06.fj'
    src.write_text(case['src'])
    images = []
    for version in (0, 1, 2, 3):
        out = tmp / ('c06a_v%d.fjm' % version)
        if os.path.exists(out):
            os.unlink(out)
        try:
            with contextlib.redirect_stdout(io.StringIO()):
                flipjump.assemble([src], out, memory_width=w, fjm_version=FJMVersion(version), print_time=False,
                                  warning_as_errors=False, use_stl=False)
        except FlipJumpException as e:
            images.append(('exc', type(e).__name__))
            continue
        try:
            r = Reader(out)
        except Exception as e:
            return Violation('c06:asm:reader-refuses-assembled-file', {'version': version, 'exc': repr(e)}, cl)
        mem = {}
        for sgm in r.memory_segments:
            if sgm.segment_length > 200000:
                return Discard('huge segment')
            for wa in range(sgm.segment_start, sgm.segment_start + sgm.segment_length):
                mem[wa] = reader_value(r, wa)
        stray = [k for k in r.memory if k not in mem]
        images.append(('ok', [(s.segment_start, s.segment_length) for s in r.memory_segments], mem, stray))
    kinds = {im[0] for im in images}
    if kinds == {'exc'}:
        return Discard('program rejected')
    if len(kinds) > 1:
        return Violation('c06:asm:version-dependent-acceptance', {'per_version': [im[:2] if im[0] == 'exc' else 'ok' for im in images]}, cl)
    base = images[0]
    for v, im in enumerate(images[1:], 1):
        if im[1] != base[1]:
            return Violation('c06:asm:version-dependent-segments', {'v0': base[1], 'v%d' % v: im[1]}, cl)
        if im[2] != base[2]:
            k = next(k for k in base[2] if base[2][k] != im[2].get(k))
            return Violation('c06:asm:version-dependent-image', {'word': k, 'v0': base[2][k], 'v%d' % v: im[2].get(k)}, cl)
    if base[3]:
        return Violation('c06:asm:word-outside-segments', {'words': base[3][:5]}, cl)
    nt = len(base[1]) >= 2
    return Ok(cl + ['assembled ok'], nt)


def run_case(case):
    if case.get('kind') == 'asm':
        return run_asm_case(case)
    return run_writer_case(case)
