"""C11 - the native engine is memory-safe for every image, input and knob (ASan + UBSan build)."""
import json
import os
import select
import subprocess
import sys
import time

from hypothesis import strategies as st

from fjverif import env, imagegen
from fjverif.imagegen import D
from fjverif.runner import Ok, Violation, Discard

ID = 'C11'
LEVEL = 'exploration'
NEEDS_ASAN = True
RULE = ('cases = execution-guided images (so that the run executes ops and does IO) written by a reference encoder '
        'with adversarial segment tables (lengths 2^40..2^63 with tiny data, ranges ending at word 2^64, 2..5000 extra '
        'segments, unsorted) x flat_max_words / FLIPJUMP_FLAT_MAX_WORDS / forced paged / ring / measured loop x device '
        'scripts doing read_word / write_word / read_data_byte / write_data_byte at attach time and at IO call k on '
        'any 64-bit word address (segment, window and page edges, 2^58+-1, 2^64-1).  Each case runs inside a worker '
        'process that loads a clang ASan+UBSan build of the *current* _fjcore.c; any sanitizer report, abort or signal '
        'is a violation attributed to the case.  non-trivial = the run executes >= 4 ops and uses >= 2 storage modes '
        'or performs a device access outside every segment')
ASSUMPTIONS = ['leaks are not detected (detect_leaks=0: CPython noise)', 'coverage-guided fuzzing of the extension under ASan '
               'is unavailable in this sandbox (see DESIGN 6); generation is Hypothesis-structured',
               'one case allocates <= ~64 MiB (flat window <= 2^22 words unless the default window applies)']

U64 = 1 << 64
_worker = None
_stderr_path = None


def _start_worker():
    global _worker, _stderr_path
    snap = os.environ[env.ENV_SNAPSHOT]
    _stderr_path = os.path.join(snap, 'asan_stderr.%d.log' % os.getpid())
    e = env.child_env(snap, asan=True)
    errf = open(_stderr_path, 'wb')
    _worker = subprocess.Popen([sys.executable, '-m', 'fjverif.asan_worker'], stdin=subprocess.PIPE, stdout=subprocess.PIPE,
                               stderr=errf, env=e, cwd=os.path.dirname(os.path.dirname(os.path.dirname(os.path.abspath(__file__)))))
    line = _read_line(60)
    if not line or not json.loads(line).get('ready'):
        err = open(_stderr_path, 'rb').read()[-2000:].decode('latin-1')
        raise env.HarnessError('ASan worker did not start: %s' % err)


def _read_line(timeout):
    fd = _worker.stdout
    r, _, _ = select.select([fd], [], [], timeout)
    if not r:
        return None
    return fd.readline().decode()


def setup_worker():
    pass


def send(case, timeout=90):
    """-> ('ok', reply) | ('died', stderr excerpt) | ('timeout', None)"""
    global _worker
    if _worker is None or _worker.poll() is not None:
        _start_worker()
    try:
        _worker.stdin.write((json.dumps(case) + '\n').encode())
        _worker.stdin.flush()
    except BrokenPipeError:
        pass
    line = _read_line(timeout)
    if line:
        return 'ok', json.loads(line)
    rc = _worker.poll()
    if rc is None and line is None:
        _worker.kill()
        _worker.wait()
        _worker = None
        return 'timeout', None
    err = open(_stderr_path, 'rb').read()[-6000:].decode('latin-1')
    _worker = None
    return 'died', {'returncode': rc, 'stderr_tail': err}


@st.composite
def cases(draw):
    img = draw(imagegen.images(widths=(8, 16, 32, 64, 64), max_steps_choices=(6, 20, 40), big_ok=False))
    d = D(draw)
    w = img['w']
    segs = img['segments']
    used = [(s, s + l) for s, l, _ in segs]

    def free(a, l):
        return a >= 0 and a + l <= U64 and all(a + l <= s or e <= a for s, e in used)
    # adversarial extra table entries
    r = d.pct()
    if r < 25:
        a = d.choice([1 << 20, 1 << 30, (1 << 40) + 2, 1 << 57, 1 << 62])
        l = d.choice([1 << 40, 1 << 50, (1 << 62) - 2, 1 << 63])
        l = min(l, U64 - a)
        if free(a, l):
            segs.append([a, l, [d.int(0, (1 << w) - 1) for _ in range(2 * d.int(0, 2))]])
            used.append((a, a + l))
    elif r < 40:
        l = 2 * d.int(1, 4)
        if free(U64 - l, l):
            segs.append([U64 - l, l, [d.int(0, (1 << w) - 1) for _ in range(l)]])
            used.append((U64 - l, U64))
    elif r < 55:
        n = d.choice([2, 17, 300, 2000, 5000])
        start = (max(e for _, e in used) + 2 * d.int(1, 50) + 1) & ~1
        stride = d.choice([2, 4, 2 * d.int(1, 9000), 1 << 14, (1 << 14) + 2])
        if start + n * stride <= U64 and all(e <= start for _, e in used):
            img['many'] = [n, start, stride]
    elif r < 62 and not img.get('many'):
        # the first segment is huge (the flat window then covers the default limit)
        s0 = segs[0]
        nxt = min([s for s, e in used if s > 0] or [U64])
        s0[1] = min(d.choice([1 << 22, (1 << 23) + 2, 1 << 40]), nxt) & ~1
        if s0[1] < len(s0[2]):
            s0[1] = len(s0[2])
    img['order'] = d.choice([None, None, 'reversed'])
    # knobs
    edges = sorted({x for s, e in used for x in (s, e)} | {1 << 14, 1 << 22, 1 << 23})
    flats = [1, 2, 3, 5, 7, 1 << 14, (1 << 14) + 1, 1 << 22, None, None] + [e + dx for e in edges for dx in (-1, 0, 1) if 0 < e + dx <= (1 << 22)]
    cfgs = []
    for _ in range(d.int(1, 3)):
        cfgs.append({'flat': d.choice(flats), 'no_flat': d.pct() < 20, 'last_len': d.choice([None, None, 1, 3, 10]),
                     'measure': d.pct() < 15, 'env_flat': d.choice([None, None, None, 1, 4096, 1 << 21])})
    img['configs'] = cfgs
    # device accesses
    interesting = [0, 1, 2, 3, (1 << 14) - 1, 1 << 14, (1 << 22) - 1, 1 << 22, (1 << 23) - 1, 1 << 23, (1 << 58) - 1, 1 << 58,
                   (1 << 58) + 1, U64 - 1, U64 - 2, 1 << 63]
    for s, e in used:
        interesting += [s - 1, s, s + 1, e - 1, e, e + 1]
    interesting = [x for x in interesting if 0 <= x < U64]
    acc = []
    for _ in range(d.int(0, 10)):
        op = d.choice(['rw', 'ww', 'rb', 'wb'])
        addr = d.choice(interesting) if d.pct() < 85 else d.int(0, U64 - 1)
        if op in ('rb', 'wb'):
            addr = (addr * w) % U64 if d.pct() < 80 else addr  # op bit-address
        acc.append([d.choice([0, 0, 1, 2, 3, d.int(1, 12)]), op, addr, d.int(0, (1 << w) - 1) if d.pct() < 80 else d.int(0, U64 - 1)])
    if d.pct() < 15:
        # many distinct far pages (a pure function of two drawn numbers): the page table grows, collision chains
        # form, reach the last bucket and wrap
        sd, npages = d.int(0, (1 << 30) - 1), d.choice([12, 24, 40, 70])
        span = d.choice([1 << 10, 1 << 20, 1 << 36, 1 << 50])
        for _ in range(npages):
            sd = (sd * 6364136223846793005 + 1442695040888963407) & (U64 - 1)
            page = (sd >> 13) % span
            acc.append([(sd >> 5) % 3, 'ww' if (sd >> 7) % 4 else 'rw', ((page << 14) + ((sd >> 40) % (1 << 14))) % U64, (sd >> 20) & ((1 << w) - 1)])
        img['scatter'] = npages
    img['accesses'] = acc
    if d.pct() < 25:
        # one Memory object re-used for 2-4 runs: (ring length, IO call at which the callback raises or 0, exception kind)
        img['reuse'] = [[d.choice([0, 0, 1, 3, 10]), d.choice([0, 0, 1, 2, d.int(1, 6)]), d.choice(['kbd', 'foreign', 'badbool'])] for _ in range(d.int(2, 4))]
    return img


def families(tier):
    q = tier == 'quick'
    return [{'name': 'adversarial-images', 'strategy': cases, 'examples': 1000 if q else 40000}]


def run_case(case):
    from fjverif import machine
    msegs = [list(x) for x in case['segments']]
    if case.get('many'):
        n, start, stride = case['many']
        if stride == 2:
            msegs.append([start, 2 * n, []])
        else:
            msegs.extend([start + i * stride, 2, []] for i in range(n))
    space = 1 << (case['w'] - (case['w'].bit_length() - 1))
    msegs = [[s, min(l, space - s), d] for s, l, d in msegs if s < space]
    ref = machine.run(case['w'], msegs, case['input_bits'], budget=3000)
    if ref.cause == machine.BUDGET:
        return Discard('reference budget')
    status, reply = send(case)
    cl = ['w=%d' % case['w'], 'layout=' + case['layout']]
    if status == 'timeout':
        return Discard('inconclusive: worker wall guard')
    if status == 'died':
        tail = reply['stderr_tail']
        kind = 'abort'
        for marker in ('heap-buffer-overflow', 'heap-use-after-free', 'runtime error', 'SEGV', 'stack-buffer-overflow',
                       'attempting double-free', 'allocation-size-too-big', 'out-of-memory', 'global-buffer-overflow'):
            if marker in tail:
                kind = marker.replace(' ', '-')
                break
        return Violation('c11:sanitizer:' + kind, {'returncode': reply['returncode'], 'stderr_tail': tail[-2500:]}, cl)
    if not reply.get('ok'):
        return Violation('c11:worker-harness-exception', reply, cl)
    if isinstance(reply.get('reuse'), dict) and reply['reuse'].get('refcount_delta'):
        return Violation('c11:python-object-ownership:refcount-changed', reply['reuse'], cl)
    modes = set()
    ops = 0
    for o in reply['outcomes']:
        if o['exc'] == 'EngineTimeout':
            return Discard('inconclusive: engine wall guard')
        if o['storage']:
            modes.add(o['storage'])
            cl.append('storage=' + o['storage'])
        if o['exc']:
            cl.append('python exception:' + o['exc'])
        else:
            cl.append('cause=' + str(o['cause']))
        ops = max(ops, o['ops'] or 0)
    if case.get('many'):
        cl.append('many segments>=%d' % (1000 if case['many'][0] >= 1000 else 2))
    if any(s + l == U64 for s, l, _ in case['segments']):
        cl.append('segment ends at 2^64')
    if any(l >= (1 << 40) for s, l, _ in case['segments']):
        cl.append('huge segment')
    ranges = [(s, s + l) for s, l, _ in case['segments']]
    outside = sum(1 for a in case['accesses'] if a[1] in ('rw', 'ww') and not any(s <= a[2] < e for s, e in ranges))
    if outside:
        cl.append('device access outside segments')
    if case['accesses']:
        cl.append('device accesses')
    if case.get('reuse'):
        cl.append('one Memory object re-used for %d runs' % len(case['reuse']))
    if case.get('scatter'):
        cl.append('page scatter >= %d pages' % (40 if case['scatter'] >= 40 else 12))
    nt = ops >= 4 and (len(modes) >= 2 or outside > 0)
    return Ok(sorted(set(cl)), nt)
