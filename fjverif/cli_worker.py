"""Route worker for C20, run as a fresh process:  python -m fjverif.cli_worker <mode> <json-args-file>
mode 'cli': runs flipjump_cli with argv (in-process, with flipjump_cli.Writer wrapped to record how it was constructed)
mode 'api': flipjump.assemble(...) + flipjump.run(...) with the given options
stdin = program input bytes.  Prints one JSON line on fd 3 (file given in args) to keep stdout clean.
"""
import io
import json
import sys
from pathlib import Path


def main():
    from fjverif import env
    env.activate()
    mode = sys.argv[1]
    spec = json.loads(Path(sys.argv[2]).read_text())
    result_path = Path(spec['result_path'])
    info = {'writer': []}
    import importlib
    std_mod = importlib.import_module('flipjump.interpreter.io_devices.StandardIO')
    data = sys.stdin.buffer.read()
    std_mod.stdin = io.StringIO(data.decode('latin-1'))
    out_capture = io.StringIO()
    real_stdout = sys.stdout
    sys.stdout = out_capture
    std_mod.stdout = out_capture
    try:
        if mode == 'cli':
            from flipjump import flipjump_cli
            real_writer = flipjump_cli.Writer

            def recording_writer(path, width, version, **kw):
                info['writer'].append({'width': width, 'version': version.value, 'flags': kw.get('flags'), 'lzma_preset': kw.get('lzma_preset')})
                return real_writer(path, width, version, **kw)
            flipjump_cli.Writer = recording_writer
            try:
                flipjump_cli.assemble_run_according_to_cmd_line_args(cmd_line_args=spec['argv'])
                info['exit'] = 0
            except SystemExit as e:
                info['exit'] = e.code if isinstance(e.code, int) else 1
            except Exception as e:
                info['exit'] = 'exception'
                info['exc'] = type(e).__name__
                info['msg'] = str(e)[:300]
        else:
            import flipjump
            from flipjump.assembler import assembler
            from flipjump.fjm.fjm_consts import FJMVersion
            from flipjump.fjm.fjm_writer import Writer
            from flipjump.utils.functions import get_file_tuples
            o = spec['api']
            try:
                files = [Path(p) for p in o['files']]
                out = Path(o['out'])
                dbg = Path(o['debug']) if o.get('debug') else None
                if o.get('one_call'):
                    if o.get('prior_run'):
                        # an unrelated earlier API call in the same process, with the default io-device: a tiny program that
                        # outputs 4 bits (half a byte) and halts.  Nothing of it may reach the next call.
                        tiny = files[0].parent / 'prior_tiny.fj'
                        tiny.write_text(';begin\n;0\nbegin:\n2*w+1;\n2*w;\n2*w+1;\n2*w;\nloop: ;loop\n')
                        keep = out_capture.getvalue()
                        flipjump.assemble_and_run([tiny], memory_width=o['w'], use_stl=False, print_time=False, print_termination=False)
                        if o['use_stl']:
                            # and one that uses the library (same width and warnings mode) and defines top-level constants
                            # spelled like the labels of the programs that follow
                            consts = files[0].parent / 'prior_consts.fj'
                            consts.write_text('done = 5\nend = 7\nascii = 9\nstart = 3\nl = 1\nstl.startup\n'
                                              'stl.output_char 48 + done + end + ascii + start + l\nstl.loop\n')
                            flipjump.assemble_and_run([consts], memory_width=o['w'], use_stl=True, warning_as_errors=o['werror'],
                                                      print_time=False, print_termination=False)
                        out_capture.seek(0)
                        out_capture.truncate()
                        out_capture.write(keep)
                    # the single-call API: assembles into a temporary file and runs it
                    flipjump.assemble_and_run(files, memory_width=o['w'], use_stl=o['use_stl'], fjm_version=FJMVersion(o['version']),
                                              warning_as_errors=o['werror'], print_time=not o['silent'], print_termination=not o['silent'])
                    o['run'] = False
                elif o.get('lzma_preset') is None:
                    flipjump.assemble(files, out, memory_width=o['w'], use_stl=o['use_stl'], fjm_version=FJMVersion(o['version']),
                                      warning_as_errors=o['werror'], debugging_file_path=dbg, print_time=not o['silent'])
                else:
                    wr = Writer(out, o['w'], FJMVersion(o['version']), lzma_preset=o['lzma_preset'])
                    assembler.assemble(get_file_tuples([str(f.absolute()) for f in files], no_stl=not o['use_stl']), o['w'], wr,
                                       warning_as_errors=o['werror'], debugging_file_path=dbg, print_time=not o['silent'])
                if o.get('run', True):
                    flipjump.run(out, debugging_file=dbg, print_time=not o['silent'], print_termination=not o['silent'])
                info['exit'] = 0
            except SystemExit as e:
                info['exit'] = e.code if isinstance(e.code, int) else 1
            except Exception as e:
                info['exit'] = 'exception'
                info['exc'] = type(e).__name__
                info['msg'] = str(e)[:300]
    finally:
        sys.stdout = real_stdout
    info['stdout'] = out_capture.getvalue()
    result_path.write_text(json.dumps(info))


if __name__ == '__main__':
    main()
