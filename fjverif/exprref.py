"""Reference constant-expression semantics (DESIGN 3.5): a frozen transcription of the documented operator
table, an evaluator on unbounded Python ints, and a renderer that chooses parenthesisation / literal notation.

Expression AST (JSON-able):  ['n', value, notation] | ['id', name] | ['u', op, e] | ['b', op, l, r] | ['t', c, a, b]
"""

# low -> high.  (level, assoc)
BIN_PREC = {
    '||': (2, 'left'), '&&': (3, 'left'), '|': (4, 'left'), '^': (5, 'left'),
    '<': (6, 'non'), '>': (6, 'non'), '<=': (6, 'non'), '>=': (6, 'non'),
    '==': (7, 'left'), '!=': (7, 'left'), '&': (8, 'left'), '<<': (9, 'left'), '>>': (9, 'left'),
    '+': (10, 'left'), '-': (10, 'left'), '*': (11, 'left'), '/': (11, 'left'), '%': (11, 'left'),
    '**': (13, 'right'),
}
TERNARY_PREC = 1
UNARY_PREC = 12
BIN_OPS = list(BIN_PREC)
UN_OPS = ['-', '~', '#']


class EvalError(Exception):
    pass


def _bin(op, a, b):
    if op == '+':
        return a + b
    if op == '-':
        return a - b
    if op == '*':
        return a * b
    if op == '/':
        if b == 0:
            raise EvalError('division by zero')
        return a // b
    if op == '%':
        if b == 0:
            raise EvalError('modulo by zero')
        return a % b
    if op == '**':
        if b < 0:
            raise EvalError('negative exponent')
        return a ** b
    if op == '<<':
        if b < 0:
            raise EvalError('negative shift')
        return a << b
    if op == '>>':
        if b < 0:
            raise EvalError('negative shift')
        return a >> b
    if op == '&':
        return a & b
    if op == '|':
        return a | b
    if op == '^':
        return a ^ b
    if op == '&&':
        return 1 if (a != 0 and b != 0) else 0
    if op == '||':
        return 1 if (a != 0 or b != 0) else 0
    if op == '<':
        return 1 if a < b else 0
    if op == '>':
        return 1 if a > b else 0
    if op == '<=':
        return 1 if a <= b else 0
    if op == '>=':
        return 1 if a >= b else 0
    if op == '==':
        return 1 if a == b else 0
    if op == '!=':
        return 1 if a != b else 0
    raise ValueError(op)


def evaluate(e, env, info=None):
    """eager evaluation (all three implementation stages are eager). info['lazy_differs'] is set when a lazy
    reading of ?: / && / || would have skipped an erroring operand."""
    k = e[0]
    if k == 'n':
        return e[1]
    if k == 'id':
        return env[e[1]]
    if k == 'u':
        v = evaluate(e[2], env, info)
        if e[1] == '-':
            return -v
        if e[1] == '~':
            return -v - 1
        if e[1] == '#':
            return v.bit_length()
        raise ValueError(e[1])
    if k == 'b':
        op = e[1]
        if op in ('&&', '||') and info is not None:
            a = evaluate(e[2], env, info)
            try:
                b = evaluate(e[3], env, info)
            except EvalError:
                if (op == '&&' and a == 0) or (op == '||' and a != 0):
                    info['lazy_differs'] = True
                raise
            return _bin(op, a, b)
        return _bin(op, evaluate(e[2], env, info), evaluate(e[3], env, info))
    if k == 't':
        c = evaluate(e[1], env, info)
        errs = []
        vals = []
        for sub in (e[2], e[3]):
            try:
                vals.append(evaluate(sub, env, info))
                errs.append(None)
            except EvalError as ex:
                vals.append(None)
                errs.append(ex)
        taken = 0 if c != 0 else 1
        if errs[1 - taken] is not None and errs[taken] is None and info is not None:
            info['lazy_differs'] = True
        for ex in errs:
            if ex is not None:
                raise ex
        return vals[taken]
    raise ValueError(k)


ESC = {0x0: '0', 0x7: 'a', 0x8: 'b', 0x1B: 'e', 0xC: 'f', 0xA: 'n', 0xD: 'r', 0x9: 't', 0xB: 'v', 0x5C: '\\', 0x27: "'", 0x22: '"', 0x3F: '?'}


def char_text(v, style):
    """one character of a char/string literal for byte value v"""
    if style == 'hex' or not (0x20 <= v <= 0x7E) or v in (0x5C, 0x27, 0x22):
        if v in ESC and style != 'hex':
            return '\\' + ESC[v]
        return '\\x%02x' % v if style != 'HEX' else '\\X%02X' % v
    if style == 'esc' and v in ESC:
        return '\\' + ESC[v]
    return chr(v)


def render_number(v, notation):
    """notation: dec | hex | HEX | bin | char | charhex | string | stringhex"""
    if v < 0:
        raise ValueError('negative literal')
    if notation == 'hex':
        return '0x%x' % v
    if notation == 'HEX':
        return '0X%X' % v
    if notation == 'bin':
        return '0b' + bin(v)[2:]
    if notation in ('char', 'charhex') and v < 256:
        return "'" + char_text(v, 'hex' if notation == 'charhex' else 'plain') + "'"
    if notation in ('string', 'stringhex') and v > 0:
        bs = []
        x = v
        while x:
            bs.append(x & 0xFF)
            x >>= 8
        if bs[-1] != 0 and len(bs) <= 16:
            return '"' + ''.join(char_text(b, 'hex' if notation == 'stringhex' else 'plain') for b in bs) + '"'
    return str(v)


def render(e, style='min', parent=0, side=None):
    """style: 'min' = only the parentheses the frozen table requires; 'full' = parenthesise every operator node"""
    k = e[0]
    if k == 'n':
        return render_number(e[1], e[2] if len(e) > 2 else 'dec')
    if k == 'id':
        return e[1]
    if k == 'u':
        inner = render(e[2], style, UNARY_PREC, 'u')
        s = e[1] + inner
        # a unary operand of ** on the left must be parenthesised ((-2)**2); on the right it is fine
        need = style == 'full' or (parent > UNARY_PREC and side != 'r') or (parent == UNARY_PREC and side == 'u' and e[1] == '-' and False)
        return '(' + s + ')' if need else s
    if k == 'b':
        lvl, assoc = BIN_PREC[e[1]]
        ls = render(e[2], style, lvl, 'l')
        rs = render(e[3], style, lvl, 'r')
        s = '%s %s %s' % (ls, e[1], rs)
        need = style == 'full'
        if not need:
            if parent > lvl:
                need = True
            elif parent == lvl:
                if assoc == 'non':
                    need = True
                elif assoc == 'left' and side == 'r':
                    need = True
                elif assoc == 'right' and side == 'l':
                    need = True
                elif side == 'u':
                    need = True
        return '(' + s + ')' if need else s
    if k == 't':
        cs = render(e[1], style, TERNARY_PREC, 'l')
        a = render(e[2], style, 0, None)
        b = render(e[3], style, TERNARY_PREC, 'r')
        s = '%s ? %s : %s' % (cs, a, b)
        need = style == 'full' or parent > TERNARY_PREC or (parent == TERNARY_PREC and side == 'l') or side == 'u'
        return '(' + s + ')' if need else s
    raise ValueError(k)


def ids_of(e, out=None):
    out = out if out is not None else []
    if e[0] == 'id':
        if e[1] not in out:
            out.append(e[1])
    elif e[0] == 'u':
        ids_of(e[2], out)
    elif e[0] == 'b':
        ids_of(e[2], out)
        ids_of(e[3], out)
    elif e[0] == 't':
        for s in e[1:]:
            ids_of(s, out)
    return out


def ops_of(e, out=None):
    out = out if out is not None else []
    if e[0] == 'u':
        out.append('u' + e[1])
        ops_of(e[2], out)
    elif e[0] == 'b':
        out.append(e[1])
        ops_of(e[2], out)
        ops_of(e[3], out)
    elif e[0] == 't':
        out.append('?:')
        for s in e[1:]:
            ops_of(s, out)
    return out
