"""Signal-case worker for C18, run as a fresh process:  python -m fjverif.sig_worker <json-case-file> <result-file>
Runs one SIGINT case (fjverif.props.c18._run_signal_case_retrying) and writes the verdict as JSON.  The parent enforces a
hard wall-clock limit: an engine that never polls signals cannot be stopped from inside its own process."""
import json
import sys
from pathlib import Path


def main():
    # A process started as an asynchronous command of a non-interactive shell (`cmd &`) inherits SIGINT = SIG_IGN, and
    # python then installs no KeyboardInterrupt handler at all: every SIGINT would be dropped before it reaches the
    # engine.  The case is about what the engine does when python raises KeyboardInterrupt, so the standard handler is
    # installed explicitly.
    import signal
    signal.signal(signal.SIGINT, signal.default_int_handler)
    from fjverif import env
    env.activate()
    from fjverif.props import c18
    from fjverif.runner import Ok, Violation
    case = json.loads(Path(sys.argv[1]).read_text())
    r = c18.run_signal_case_inprocess(case)
    if isinstance(r, Violation):
        out = {'verdict': 'violation', 'key': r.key, 'detail': r.detail, 'classes': r.classes}
    elif isinstance(r, Ok):
        out = {'verdict': 'ok', 'classes': r.classes, 'sample': r.sample}
    else:
        out = {'verdict': 'discard', 'reason': getattr(r, 'reason', '')}
    Path(sys.argv[2]).write_text(json.dumps(out))


if __name__ == '__main__':
    main()
