"""Fresh-process assembly oracle for C13 / route worker for C20.
stdin: one JSON request; stdout: one JSON result.
request: {texts:[...], w, werror, version, depth, use_stl, dir_tag, debug}
"""
import contextlib
import io
import json
import os
import shutil
import sys
import tempfile
from pathlib import Path


def do_request(req, base_dir=None, fixed_base=None):
    """fixed_base: assemble inside this existing directory (kept afterwards) so that requests of one history that name
    the same dir_tag re-use the same source and output PATHS, as a user re-assembling an edited file does"""
    import flipjump
    from flipjump.fjm.fjm_consts import FJMVersion
    from flipjump.utils.exceptions import FlipJumpException
    base = Path(fixed_base) if fixed_base else Path(tempfile.mkdtemp(prefix='asmreq.', dir=base_dir or os.environ.get('FJVERIF_SNAPSHOT') or None))
    try:
        d = base
        for comp in (req.get('dir_tag') or 'x').split('/'):
            d = d / comp
        d.mkdir(parents=True, exist_ok=True)
        paths = []
        for i, t in enumerate(req['texts']):
            p = d / ('%s%d.fj' % (req.get('stem', 'src'), i))
            p.write_bytes(t.encode('utf-8'))
            paths.append(p)
        out = d / 'out.fjm'
        dbg = d / 'out.fjd'
        for old in (out, dbg):
            if old.exists():
                old.unlink()
        for stale in d.glob('*.fj'):
            if stale not in paths:
                stale.unlink()
        res = {'status': 'ok', 'exc': None, 'fjm': None, 'fjd': None}
        kw = {}
        if req.get('depth') is not None:
            kw['max_recursion_depth'] = req['depth']
        try:
            with contextlib.redirect_stdout(io.StringIO()):
                if req.get('via_stl_list'):
                    # a caller that builds its own input list from the public flipjump.get_stl_paths() (and extends the list it
                    # got in place), then assembles it without the automatic stl
                    files = flipjump.get_stl_paths()
                    files.extend(paths)
                    flipjump.assemble(files, out, memory_width=req['w'], fjm_version=FJMVersion(req['version']), print_time=False,
                                      warning_as_errors=req['werror'], use_stl=False,
                                      debugging_file_path=dbg if req.get('debug', True) else None, **kw)
                elif req.get('short_prefix'):
                    # the lower-level entry point: the caller chooses the files' short names (they appear in label names)
                    from flipjump.assembler import assembler
                    from flipjump.fjm.fjm_writer import Writer
                    from flipjump.utils.functions import get_file_tuples
                    tuples = get_file_tuples([str(p.absolute()) for p in paths], no_stl=not req['use_stl'])
                    tuples = [(req['short_prefix'] + name[1:] if name.startswith('s') else name, path) for name, path in tuples]
                    assembler.assemble(tuples, req['w'], Writer(out, req['w'], FJMVersion(req['version'])), print_time=False,
                                       warning_as_errors=req['werror'],
                                       debugging_file_path=dbg if req.get('debug', True) else None, **kw)
                else:
                    flipjump.assemble(paths, out, memory_width=req['w'], fjm_version=FJMVersion(req['version']), print_time=False,
                                      warning_as_errors=req['werror'], use_stl=req['use_stl'],
                                      debugging_file_path=dbg if req.get('debug', True) else None, **kw)
        except FlipJumpException as e:
            res['status'] = 'fj-exception'
            res['exc'] = type(e).__name__
            # messages contain absolute paths: normalise the request directory away
            res['msg'] = str(e).replace(str(d), '<DIR>')[:300]
        except RecursionError as e:
            res['status'] = 'raw-exception'
            res['exc'] = type(e).__name__
        except Exception as e:
            res['status'] = 'raw-exception'
            res['exc'] = type(e).__name__
            res['msg'] = repr(e)[:200]
        if res['status'] == 'ok':
            res['fjm'] = out.read_bytes().hex()
            if dbg.exists():
                res['fjd'] = dbg.read_bytes().hex()
        return res
    finally:
        if not fixed_base:
            shutil.rmtree(base, ignore_errors=True)


def main():
    from fjverif import env
    env.activate()
    req = json.loads(sys.stdin.read())
    sys.stdout.write(json.dumps(do_request(req)))


if __name__ == '__main__':
    main()
