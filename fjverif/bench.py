"""'Assemble once, poke many' stl bench (DESIGN 3.7).

A bench program is assembled once with the real assembler (with the .fjd label table), loaded with the real Reader,
and then for every operand tuple a fresh _fjcore.Memory (from the snapshot build) is filled with the words, the variables'
data bits are poked, a block is run from its label (start_ip) and all declared variables are read back.
The engine is a vehicle here - its correctness is C01/C07's business.
"""
import contextlib
import hashlib
import io
import os
import pickle
from pathlib import Path

from fjverif import engines


class BenchError(Exception):
    pass


class Bench:
    def __init__(self, src, w=64, use_cache=True):
        import flipjump
        from flipjump.fjm.fjm_consts import FJMVersion
        from flipjump.fjm.fjm_reader import Reader
        from flipjump.utils.exceptions import FlipJumpException
        from flipjump.utils.functions import load_debugging_labels
        self.w = w
        self.ww = w.bit_length() - 1
        self.src = src
        key = hashlib.sha256((src + '|%d' % w).encode()).hexdigest()[:24]
        cdir = os.path.join(os.environ.get('FJVERIF_SNAPSHOT', '/var/tmp'), 'benchcache')
        cpath = os.path.join(cdir, key + '.pkl')
        if use_cache and os.path.exists(cpath):
            try:
                with open(cpath, 'rb') as f:
                    self.labels, self.segs, self.runs = pickle.load(f)
                return
            except Exception:
                pass
        tmp = engines.tmpdir()
        f = tmp / ('bench_%s.fj' % key)
        f.write_text(src)
        out = tmp / ('bench_%s.fjm' % key)
        dbg = tmp / ('bench_%s.fjd' % key)
        try:
            with contextlib.redirect_stdout(io.StringIO()):
                flipjump.assemble([f], out, memory_width=w, fjm_version=FJMVersion(1), print_time=False,
                                  warning_as_errors=False, debugging_file_path=dbg)
        except FlipJumpException as e:
            raise BenchError('bench program does not assemble: %s\n%s' % (str(e)[:600], src[:1500]))
        r = Reader(out)
        self.labels = load_debugging_labels(dbg)
        self.segs = [(s.segment_start, s.segment_length) for s in r.memory_segments]
        keys = sorted(r.memory)
        self.runs = []
        prev = None
        for k in keys:
            if prev is None or k != prev + 1:
                self.runs.append((k, []))
            self.runs[-1][1].append(r.memory[k])
            prev = k
        for p in (f, out, dbg):
            try:
                os.unlink(p)
            except OSError:
                pass
        if use_cache:
            os.makedirs(cdir, exist_ok=True)
            t = cpath + '.%d.tmp' % os.getpid()
            with open(t, 'wb') as fh:
                pickle.dump((self.labels, self.segs, self.runs), fh)
            os.replace(t, cpath)

    # ---- memory
    def fresh(self):
        from flipjump.interpreter import fjm_run
        m = fjm_run._fjcore.Memory(self.w)
        for s, l in self.segs:
            m.add_segment(s, l)
        for k, vals in self.runs:
            m.set_words(k, vals)
        return m

    def addr(self, label):
        if isinstance(label, int):
            return label
        if label not in self.labels:
            raise BenchError('label %s not in the debug table' % label)
        return self.labels[label]

    def get(self, m, label, n, bits=4):
        """value of the hex (bits=4) / bit (bits=1) / byte (bits=8) vector of n cells at label"""
        a = self.addr(label)
        v = 0
        base = (a >> self.ww) + 1
        sh = self.ww + 1
        mask = (1 << bits) - 1
        for i in range(n):
            v |= ((m.get_word(base + 2 * i) >> sh) & mask) << (bits * i)
        return v

    def cell_raw(self, m, label, i=0):
        """the whole data field (jump word >> (ww+1)) of cell i: detects stray bits outside the value bits"""
        a = self.addr(label)
        return m.get_word((a >> self.ww) + 1 + 2 * i) >> (self.ww + 1)

    def set(self, m, label, n, val, bits=4):
        a = self.addr(label)
        base = (a >> self.ww) + 1
        sh = self.ww + 1
        mask = ((1 << bits) - 1) << sh
        for i in range(n):
            wa = base + 2 * i
            word = m.get_word(wa)
            m.set_word(wa, (word & ~mask) | (((val >> (bits * i)) & ((1 << bits) - 1)) << sh))

    def run(self, m, start=None, inp=b'', max_in_bits=None):
        """-> dict(cause, ops, out(bytes), out_bits_rem, in_bits_consumed, fault)"""
        from flipjump.utils.exceptions import IOReadOnEOF
        from flipjump.interpreter import fjm_run
        core = fjm_run._fjcore
        bits = inp if isinstance(inp, list) else [(byte >> i) & 1 for byte in inp for i in range(8)]
        out = []
        pos = [0]

        def rb():
            if pos[0] >= len(bits):
                raise IOReadOnEOF('eof')
            pos[0] += 1
            return bool(bits[pos[0] - 1])

        def wb(b):
            out.append(1 if b else 0)
        kw = {}
        if start is not None:
            kw['start_ip'] = self.addr(start)
        with engines.hang_guard(30):
            cause, ops, err, _, _ = m.run(rb, wb, IOReadOnEOF, **kw)
        nfull = len(out) // 8
        data = bytes(sum(out[8 * i + j] << j for j in range(8)) for i in range(nfull))
        names = {core.TERM_LOOPING: 'Looping', core.TERM_EOF: 'EOF', core.TERM_NULL_IP: 'NullIP'}
        return {'cause': names.get(cause, 'RuntimeMemoryError'), 'ops': ops, 'out': data, 'out_bits_rem': len(out) % 8,
                'in_bits': pos[0], 'fault': err}
