"""Doc-comment formulas of the bit-namespace data macros (C05), transcribed from flipjump/stl/bit/*.fj.
Doc lines that contradict the macro's name and every caller (bit.neg says 'x[:n]--') use the name-consistent meaning.
Sizes are in bits.  Same spec format as stlspec_hex.
"""


def M(n):
    return (1 << n) - 1


def sgn(v, n):
    return v - (1 << n) if v >> (n - 1) else v


SPECS = []


def spec(name, call, vars_, f, ns=(1, 2, 3, 4, 8, 13), consts=None, ms=(None,), notes=''):
    SPECS.append({'name': name, 'call': call, 'vars': vars_, 'f': f, 'ns': ns, 'consts': consts or {}, 'pre': '', 'ms': ms, 'notes': notes})


N = lambda n, m: n  # noqa
ONE = lambda n, m: 1  # noqa

spec('bit.zero/1', 'bit.zero a', {'a': ONE}, lambda e, n, m, C, K: {'a': 0}, ns=(1,))
spec('bit.zero/n', 'bit.zero {n}, a', {'a': N}, lambda e, n, m, C, K: {'a': 0})
spec('bit.one/1', 'bit.one a', {'a': ONE}, lambda e, n, m, C, K: {'a': 1}, ns=(1,))
spec('bit.one/n', 'bit.one {n}, a', {'a': N}, lambda e, n, m, C, K: {'a': M(n)})
spec('bit.unsafe_mov', 'bit.unsafe_mov a, b', {'a': ONE, 'b': ONE}, lambda e, n, m, C, K: {'a': e['b']}, ns=(1,))
spec('bit.mov/1', 'bit.mov a, b', {'a': ONE, 'b': ONE}, lambda e, n, m, C, K: {'a': e['b']}, ns=(1,))
spec('bit.mov/1 same', 'bit.mov a, a', {'a': ONE}, lambda e, n, m, C, K: {}, ns=(1,))
spec('bit.mov/n', 'bit.mov {n}, a, b', {'a': N, 'b': N}, lambda e, n, m, C, K: {'a': e['b']})
spec('bit.mov/n same', 'bit.mov {n}, a, a', {'a': N}, lambda e, n, m, C, K: {}, ns=(2, 5))
spec('bit.swap/1', 'bit.swap a, b', {'a': ONE, 'b': ONE}, lambda e, n, m, C, K: {'a': e['b'], 'b': e['a']}, ns=(1,))
spec('bit.swap/n', 'bit.swap {n}, a, b', {'a': N, 'b': N}, lambda e, n, m, C, K: {'a': e['b'], 'b': e['a']})
spec('bit.xor/1', 'bit.xor a, b', {'a': ONE, 'b': ONE}, lambda e, n, m, C, K: {'a': e['a'] ^ e['b']}, ns=(1,))
spec('bit.xor/n', 'bit.xor {n}, a, b', {'a': N, 'b': N}, lambda e, n, m, C, K: {'a': e['a'] ^ e['b']})
spec('bit.exact_xor', 'bit.exact_xor a+dbit, b', {'a': ONE, 'b': ONE}, lambda e, n, m, C, K: {'a': e['a'] ^ e['b']}, ns=(1,))
spec('bit.double_exact_xor', 'bit.double_exact_xor a+dbit, c+dbit, b', {'a': ONE, 'b': ONE, 'c': ONE},
     lambda e, n, m, C, K: {'a': e['a'] ^ e['b'], 'c': e['c'] ^ e['b']}, ns=(1,))
spec('bit.xor_zero/1', 'bit.xor_zero a, b', {'a': ONE, 'b': ONE}, lambda e, n, m, C, K: {'a': e['a'] ^ e['b'], 'b': 0}, ns=(1,))
spec('bit.xor_zero/n', 'bit.xor_zero {n}, a, b', {'a': N, 'b': N}, lambda e, n, m, C, K: {'a': e['a'] ^ e['b'], 'b': 0})
spec('bit.or/1', 'bit.or a, b', {'a': ONE, 'b': ONE}, lambda e, n, m, C, K: {'a': e['a'] | e['b']}, ns=(1,))
spec('bit.or/n', 'bit.or {n}, a, b', {'a': N, 'b': N}, lambda e, n, m, C, K: {'a': e['a'] | e['b']})
spec('bit.and/1', 'bit.and a, b', {'a': ONE, 'b': ONE}, lambda e, n, m, C, K: {'a': e['a'] & e['b']}, ns=(1,))
spec('bit.and/n', 'bit.and {n}, a, b', {'a': N, 'b': N}, lambda e, n, m, C, K: {'a': e['a'] & e['b']})
spec('bit.not/1', 'bit.not a', {'a': ONE}, lambda e, n, m, C, K: {'a': e['a'] ^ 1}, ns=(1,))
spec('bit.not/n', 'bit.not {n}, a', {'a': N}, lambda e, n, m, C, K: {'a': e['a'] ^ M(n)})
spec('bit.exact_not', 'bit.exact_not a+dbit', {'a': ONE}, lambda e, n, m, C, K: {'a': e['a'] ^ 1}, ns=(1,))
# cond jumps
spec('bit.if/1', 'bit.if a, {L0}, {L1}', {'a': ONE}, lambda e, n, m, C, K: {'_branch': 0 if e['a'] == 0 else 1}, ns=(1,))
spec('bit.if/n', 'bit.if {n}, a, {L0}, {L1}', {'a': N}, lambda e, n, m, C, K: {'_branch': 0 if e['a'] == 0 else 1})
spec('bit.if1/1', 'bit.if1 a, {L1}', {'a': ONE}, lambda e, n, m, C, K: {'_branch': 1 if e['a'] else 'fall'}, ns=(1,))
spec('bit.if1/n', 'bit.if1 {n}, a, {L1}', {'a': N}, lambda e, n, m, C, K: {'_branch': 1 if e['a'] else 'fall'})
spec('bit.if0/1', 'bit.if0 a, {L0}', {'a': ONE}, lambda e, n, m, C, K: {'_branch': 0 if e['a'] == 0 else 'fall'}, ns=(1,))
spec('bit.if0/n', 'bit.if0 {n}, a, {L0}', {'a': N}, lambda e, n, m, C, K: {'_branch': 0 if e['a'] == 0 else 'fall'})
spec('bit.cmp/1', 'bit.cmp a, b, {L0}, {L1}, {L2}', {'a': ONE, 'b': ONE},
     lambda e, n, m, C, K: {'_branch': 0 if e['a'] < e['b'] else 1 if e['a'] == e['b'] else 2}, ns=(1,))
spec('bit.cmp/n', 'bit.cmp {n}, a, b, {L0}, {L1}, {L2}', {'a': N, 'b': N},
     lambda e, n, m, C, K: {'_branch': 0 if e['a'] < e['b'] else 1 if e['a'] == e['b'] else 2})
# shifts
spec('bit.shr/1', 'bit.shr {n}, a', {'a': N}, lambda e, n, m, C, K: {'a': e['a'] >> 1})
spec('bit.shr/times', 'bit.shr {n}, {K}, a', {'a': N}, lambda e, n, m, C, K: {'a': e['a'] >> K}, consts={'K': 'times'})
spec('bit.shra', 'bit.shra {n}, {K}, a', {'a': N}, lambda e, n, m, C, K: {'a': (sgn(e['a'], n) >> K) & M(n)}, consts={'K': 'times'})
spec('bit.shl/1', 'bit.shl {n}, a', {'a': N}, lambda e, n, m, C, K: {'a': (e['a'] << 1) & M(n)})
spec('bit.shl/times', 'bit.shl {n}, {K}, a', {'a': N}, lambda e, n, m, C, K: {'a': (e['a'] << K) & M(n)}, consts={'K': 'times'})
spec('bit.ror', 'bit.ror {n}, a', {'a': N}, lambda e, n, m, C, K: {'a': (e['a'] >> 1) | ((e['a'] & 1) << (n - 1))})
spec('bit.rol', 'bit.rol {n}, a', {'a': N}, lambda e, n, m, C, K: {'a': ((e['a'] << 1) & M(n)) | (e['a'] >> (n - 1))})
# math
spec('bit.inc1', 'bit.inc1 a, c', {'a': ONE, 'c': ONE},
     lambda e, n, m, C, K: {'a': (e['a'] + e['c']) & 1, 'c': (e['a'] + e['c']) >> 1}, ns=(1,),
     notes='doc line "{carry:dst}++" read as every caller uses it: dst += carry-in, carry = carry-out')
spec('bit.inc', 'bit.inc {n}, a', {'a': N}, lambda e, n, m, C, K: {'a': (e['a'] + 1) & M(n)})
spec('bit.dec', 'bit.dec {n}, a', {'a': N}, lambda e, n, m, C, K: {'a': (e['a'] - 1) & M(n)})
spec('bit.neg', 'bit.neg {n}, a', {'a': N}, lambda e, n, m, C, K: {'a': (-e['a']) & M(n)},
     notes='the doc line says x[:n]-- ; the name, bit.idiv and hex.neg say negation')
spec('bit.add1', 'bit.add1 a, b, c', {'a': ONE, 'b': ONE, 'c': ONE},
     lambda e, n, m, C, K: {'a': (e['a'] + e['b'] + e['c']) & 1, 'c': (e['a'] + e['b'] + e['c']) >> 1}, ns=(1,),
     notes='doc line "{carry:dst} += src" read as a full adder (dst += src + carry-in, carry = carry-out), as bit.add uses it')
spec('bit.add', 'bit.add {n}, a, b', {'a': N, 'b': N}, lambda e, n, m, C, K: {'a': (e['a'] + e['b']) & M(n)})
spec('bit.add same', 'bit.add {n}, a, a', {'a': N}, lambda e, n, m, C, K: {'a': (2 * e['a']) & M(n)}, ns=(1, 3, 8))
spec('bit.sub', 'bit.sub {n}, a, b', {'a': N, 'b': N}, lambda e, n, m, C, K: {'a': (e['a'] - e['b']) & M(n)})
spec('bit.mul10', 'bit.mul10 {n}, a', {'a': N}, lambda e, n, m, C, K: {'a': (e['a'] * 10) & M(n)}, ns=(2, 3, 4, 8, 13))
spec('bit.mul_loop', 'bit.mul_loop {n}, a, b', {'a': N, 'b': N}, lambda e, n, m, C, K: {'a': (e['a'] * e['b']) & M(n)}, ns=(1, 2, 3, 4, 6, 8))
spec('bit.mul', 'bit.mul {n}, a, b', {'a': N, 'b': N}, lambda e, n, m, C, K: {'a': (e['a'] * e['b']) & M(n)}, ns=(1, 2, 3, 4, 6, 8))
spec('bit.mul squaring', 'bit.mul {n}, a, a', {'a': N}, lambda e, n, m, C, K: {'a': (e['a'] * e['a']) & M(n)}, ns=(1, 2, 4, 8))
spec('bit.div10', 'bit.div10 {n}, d, a', {'d': N, 'a': N}, lambda e, n, m, C, K: {'d': e['a'] // 10, 'a': e['a'] % 10}, ns=(4, 5, 8, 13))


def _udiv(e, n, m, C, K):
    if e['b'] == 0:
        return {}
    return {'q': e['a'] // e['b'], 'r': e['a'] % e['b']}


def _sdiv(e, n, m, C, K):
    a, b = sgn(e['a'], n), sgn(e['b'], n)
    if b == 0:
        return {}
    q = abs(a) // abs(b)
    if (a < 0) != (b < 0):
        q = -q
    r = a - q * b
    return {'q': q & M(n), 'r': r & M(n)}


for _nm in ('div', 'div_loop'):
    spec('bit.' + _nm, 'bit.%s {n}, a, b, q, r' % _nm, {'a': N, 'b': N, 'q': N, 'r': N}, _udiv, ns=(1, 2, 3, 4, 6))
for _nm in ('idiv', 'idiv_loop'):
    spec('bit.' + _nm, 'bit.%s {n}, a, b, q, r' % _nm, {'a': N, 'b': N, 'q': N, 'r': N}, _sdiv, ns=(2, 3, 4, 6))


# ---- aliased operands (round g): an output of the division written onto one of its inputs (a /= b, b = a / b, a %= b ...).
# The documentation states no aliasing restriction for these macros (it does where one exists: mul_loop, unsafe_mov);
# the forms below are the ones the unchanged tree computes correctly, kept as oracles.
def _udiv_alias(qv, rv):
    def f(e, n, m, C, K):
        if e['b'] == 0:
            return {}
        out = {}
        q, r = e['a'] // e['b'], e['a'] % e['b']
        # r is written after q when both alias the same variable cannot happen here (qv != rv)
        out[qv] = q
        out[rv] = r
        return out
    return f


for _nm in ('div', 'div_loop'):
    spec('bit.%s q=a' % _nm, 'bit.%s {n}, a, b, a, r' % _nm, {'a': N, 'b': N, 'r': N}, _udiv_alias('a', 'r'), ns=(2, 3, 6))
    spec('bit.%s q=b' % _nm, 'bit.%s {n}, a, b, b, r' % _nm, {'a': N, 'b': N, 'r': N}, _udiv_alias('b', 'r'), ns=(2, 3, 6))
    spec('bit.%s r=a' % _nm, 'bit.%s {n}, a, b, q, a' % _nm, {'a': N, 'b': N, 'q': N}, _udiv_alias('q', 'a'), ns=(2, 3, 6))
    spec('bit.%s r=b' % _nm, 'bit.%s {n}, a, b, q, b' % _nm, {'a': N, 'b': N, 'q': N}, _udiv_alias('q', 'b'), ns=(2, 3, 6))
