"""Reference pieces for the assembler properties (DESIGN 3.4): statement ASTs + renderer, the layout model for
macro-free programs and the wflip chain walker.  The oracle never parses source text.

Statement AST (JSON-able lists):
  ['op', F|None, J|None]   ['label', name]   ['const', name, E]   ['wflip', A, V, R|None]
  ['pad', E]   ['segment', E]   ['reserve', E]
Expressions are exprref ASTs plus ['dollar'].
"""
from fjverif import exprref


# ------------------------------------------------------------------ rendering

def render_expr(e, style='min'):
    return _render(e, style)


def _subst_dollar(e):
    return e


def _render(e, style):
    # exprref.render does not know 'dollar': temporarily map it to an id named '$'
    def conv(x):
        if x[0] == 'dollar':
            return ['id', '$']
        if x[0] == 'u':
            return ['u', x[1], conv(x[2])]
        if x[0] == 'b':
            return ['b', x[1], conv(x[2]), conv(x[3])]
        if x[0] == 't':
            return ['t', conv(x[1]), conv(x[2]), conv(x[3])]
        return x
    return exprref.render(conv(e), style)


def starts_with_identifier(e):
    while e[0] in ('b', 't'):
        e = e[2] if e[0] == 'b' else e[1]
    return e[0] == 'id'


def render_statement(st, style='min', wrap_leading_id=True):
    k = st[0]
    if k == 'op':
        f = '' if st[1] is None else _render(st[1], style)
        j = '' if st[2] is None else _render(st[2], style)
        if st[1] is not None and wrap_leading_id and starts_with_identifier(st[1]):
            f = '(' + f + ')'
        return f + ';' + (' ' + j if j else '')
    if k == 'label':
        return st[1] + ':'
    if k == 'const':
        return '%s = %s' % (st[1], _render(st[2], style))
    if k == 'wflip':
        s = 'wflip %s, %s' % (_render(st[1], style), _render(st[2], style))
        if st[3] is not None:
            s += ', ' + _render(st[3], style)
        return s
    if k == 'pad':
        return 'pad ' + _render(st[1], style)
    if k == 'segment':
        return 'segment ' + _render(st[1], style)
    if k == 'reserve':
        return 'reserve ' + _render(st[1], style)
    raise ValueError(k)


def render_program(stmts, style='min', join_labels=False, wrap_leading_id=True):
    lines = []
    pending = None
    for st in stmts:
        text = render_statement(st, style, wrap_leading_id)
        if st[0] == 'label' and join_labels:
            if pending:
                lines.append(pending)
            pending = text
            continue
        if pending:
            if st[0] in ('op', 'wflip', 'pad'):
                lines.append(pending + ' ' + text)
                pending = None
                continue
            lines.append(pending)
            pending = None
        lines.append(text)
    if pending:
        lines.append(pending)
    return '\n'.join(lines) + '\n'


# ------------------------------------------------------------------ evaluation

class Impossible(Exception):
    pass


def ev(e, env, dollar=None):
    k = e[0]
    if k == 'dollar':
        if dollar is None:
            raise KeyError('$')
        return dollar
    if k == 'n':
        return e[1]
    if k == 'id':
        return env[e[1]]
    if k == 'u':
        return exprref.evaluate(['u', e[1], ['n', ev(e[2], env, dollar)]], {})
    if k == 'b':
        return exprref._bin(e[1], ev(e[2], env, dollar), ev(e[3], env, dollar))
    if k == 't':
        c, a, b = ev(e[1], env, dollar), ev(e[2], env, dollar), ev(e[3], env, dollar)
        return a if c != 0 else b
    raise ValueError(k)


class Layout:
    """result of the layout model"""

    def __init__(self, w):
        self.w = w
        self.labels = {}
        self.ops = []          # (address, stmt_index, kind 'op'|'wflip')
        self.pad_slots = []    # addresses of pad ops (may be reused by wflip chains), with segment index
        self.reserved = []     # (first_bit, end_bit)
        self.segments = []     # dict(start, stmts_end, index)
        self.verdict = 'valid'  # 'valid' | 'impossible' | 'undetermined'
        self.reason = None
        self.words = {}        # word address -> expected value for op statements
        self.wflips = []       # (address, a, v, r, stmt_index)


def layout(w, stmts):
    """first pass: addresses + labels; second pass: op words.  Raises nothing: sets verdict."""
    L = Layout(w)
    dw = 2 * w
    env = {'w': w}
    cur = 0
    seg = {'start': 0, 'index': 0, 'stmts_end': 0}
    L.segments.append(seg)

    def mark(verdict, reason):
        if L.verdict == 'valid' or (L.verdict == 'undetermined' and verdict == 'impossible'):
            L.verdict, L.reason = verdict, reason
    # pass 1
    for i, st in enumerate(stmts):
        k = st[0]
        try:
            if k == 'const':
                if st[1] in env:
                    mark('impossible', 'constant redefined')
                env[st[1]] = ev(st[2], env)
            elif k == 'label':
                if st[1] in L.labels or st[1] in env:
                    mark('impossible', 'duplicate label / label named like a constant')
                L.labels[st[1]] = cur
            elif k in ('op', 'wflip'):
                if cur % dw and cur % w == 0:
                    # the file format holds whole ops: segment pieces start and end on even words (the Writer refuses odd
                    # starts / lengths), and statements are contiguous from a piece's start - so no accepted program has
                    # an op statement at an odd word
                    mark('impossible', 'op statement at a w- but not 2w-aligned address')
                L.ops.append((cur, i, k))
                cur += dw
            elif k == 'pad':
                n = ev(st[1], dict(env, **L.labels))
                if n <= 0:
                    mark('impossible', 'pad with a non-positive alignment')
                    n = 1
                if cur % dw:
                    mark('impossible', 'pad at an address that is not op-aligned')
                    continue
                cnt = (-(cur // dw)) % n
                for _ in range(cnt):
                    L.pad_slots.append((cur, seg['index']))
                    cur += dw
            elif k == 'segment':
                a = ev(st[1], dict(env, **L.labels))
                seg['stmts_end'] = cur
                if a % w:
                    mark('impossible', 'segment address not w-aligned')
                elif a % dw:
                    mark('undetermined', 'segment address w- but not 2w-aligned')
                if a < 0 or a >= (1 << w):
                    mark('impossible', 'segment address outside the address space')
                seg = {'start': a, 'index': seg['index'] + 1, 'stmts_end': a}
                L.segments.append(seg)
                cur = a
            elif k == 'reserve':
                n = ev(st[1], dict(env, **L.labels))
                if n % w:
                    mark('impossible', 'reserve size not w-aligned')
                elif n % dw or cur % dw:
                    mark('undetermined', 'reserve not 2w-aligned')
                if n < 0:
                    mark('impossible', 'negative reserve')
                    n = 0
                if n:
                    L.reserved.append((cur, cur + n))
                cur += n
        except (KeyError, exprref.EvalError) as e:
            mark('impossible', 'layout expression cannot be evaluated: %r' % (e,))
        seg['stmts_end'] = cur
    seg['stmts_end'] = cur
    # address-space and overlap checks on statement extents (aux areas come on top: 'undetermined' when close)
    for s in L.segments:
        if s['stmts_end'] > (1 << w):
            mark('impossible', 'statements run past the end of the address space')
    segs = sorted((s for s in L.segments if s['stmts_end'] > s['start']), key=lambda s: s['start'])
    for a, b in zip(segs, segs[1:]):
        if b['start'] < a['stmts_end']:
            mark('impossible', 'segments overlap')
    if not any(s['start'] == 0 and s['stmts_end'] >= dw for s in L.segments):
        mark('impossible', 'no op at address 0')
    # pass 2
    full = dict(env, **L.labels)
    for addr, i, k in L.ops:
        st = stmts[i]
        try:
            if k == 'op':
                f = 0 if st[1] is None else ev(st[1], full, addr + dw)
                j = addr + dw if st[2] is None else ev(st[2], full, addr + dw)
                for v in (f, j):
                    if v < 0 or v >= (1 << w):
                        mark('impossible', 'op word outside [0, 2^w)')
                L.words[addr // w] = f
                L.words[addr // w + 1] = j
            else:
                a = ev(st[1], full, addr + dw)
                v = ev(st[2], full, addr + dw)
                r = addr + dw if st[3] is None else ev(st[3], full, addr + dw)
                if v < 0 or v >= (1 << w):
                    mark('impossible', 'wflip value outside [0, 2^w)')
                if r < 0 or r >= (1 << w):
                    mark('impossible', 'wflip return address outside [0, 2^w)')
                if v > 0 and (a < 0 or a + v.bit_length() - 1 >= (1 << w)):
                    mark('impossible', 'wflip target outside [0, 2^w)')
                L.wflips.append((addr, a, v, r, i))
        except KeyError as e:
            mark('impossible', 'unknown label %s' % e)
        except exprref.EvalError as e:
            mark('impossible', 'expression error %s' % e)
    return L


def walk_wflip(w, read_word, start, a, v, r, max_ops=200):
    """follow the chain of (flip, jump) ops from `start`.  read_word(word_address) -> value or None.
    -> (ok, info) ; info has 'ops' = list of op addresses visited, 'why' on failure"""
    want = {a + i for i in range(w) if (v >> i) & 1}
    addr = start
    visited = []
    seen_flips = []
    n = max(1, len(want))
    for step in range(n):
        if addr % w:
            return False, {'why': 'chain op at unaligned address', 'ops': visited}
        f = read_word(addr // w)
        j = read_word(addr // w + 1)
        if f is None or j is None:
            return False, {'why': 'chain op outside every segment', 'at': addr, 'ops': visited}
        visited.append(addr)
        seen_flips.append(f)
        if step == n - 1:
            if j != r:
                return False, {'why': 'chain does not return to r', 'last_jump': j, 'r': r, 'ops': visited}
        else:
            addr = j
    if not want:
        if seen_flips != [0]:
            return False, {'why': 'wflip of 0 must be one op flipping nothing (flip word 0)', 'flips': seen_flips}
    elif sorted(seen_flips) != sorted(want):
        return False, {'why': 'flipped bits differ', 'flips': sorted(seen_flips)[:10], 'want': sorted(want)[:10], 'ops': visited}
    return True, {'ops': visited}
