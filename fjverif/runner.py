"""Shared runner: replay tier, sharded Hypothesis generation, exhaustive enumerations, shrinking,
replay files, known findings, evidence.

A property module (fjverif/props/cXX.py) exposes
    ID, TITLE, LEVEL, RULE, ASSUMPTIONS (list), NEEDS_ASAN (optional)
    families(tier) -> [ {name, strategy (callable -> hypothesis strategy), examples: int per shard} ]
    enumerations(tier) -> [ {name, cases: callable(shard, nshards) -> iterable of cases, exhaustive: bool} ]   (optional)
    run_case(case) -> Ok | Violation | Discard
    setup_worker() (optional)
"""
import argparse
import hashlib
import importlib
import json
import multiprocessing
import os
import re
import sys
import time
import traceback

VERIF = os.path.dirname(os.path.dirname(os.path.abspath(__file__)))
NSHARDS = int(os.environ.get('FJVERIF_SHARDS', '16'))


class Ok:
    status = 'ok'

    def __init__(self, classes=(), nontrivial=False, sample=None, note=None, evals=1, distinct=None):
        self.classes = list(classes)
        self.nontrivial = nontrivial
        self.sample = sample
        self.note = note
        self.evals = evals          # inputs evaluated inside this case (operand sweeps evaluate many per case)
        self.distinct = distinct    # number of distinct non-trivial inputs inside this case (None: the case itself)


class Violation:
    status = 'violation'

    def __init__(self, key, detail=None, classes=()):
        self.key = key
        self.detail = detail
        self.classes = list(classes)


class Discard:
    status = 'discard'

    def __init__(self, reason):
        self.reason = reason


class _Fail(Exception):
    pass


def canon(case):
    return json.dumps(case, sort_keys=True, separators=(',', ':'), default=str)


def case_hash(case):
    return hashlib.sha256(canon(case).encode()).hexdigest()[:16]


def truncate(obj, limit=1200):
    s = canon(obj)
    if len(s) <= limit:
        return obj
    return {'truncated_json': s[:limit] + '...', 'full_len': len(s)}


def load_known():
    p = os.path.join(VERIF, 'known_findings.json')
    if not os.path.exists(p):
        return []
    with open(p) as f:
        data = json.load(f)
    return data.get('findings', [])


def known_keys(pid):
    return {e['key']: e for e in load_known() if e.get('property') == pid and e.get('status', 'open') == 'open'}


def shard_seed(pid, tier, seed, shard, fam):
    h = hashlib.sha256(('%s:%s:%s:%s:%s' % (pid, tier, seed, shard, fam)).encode()).hexdigest()
    return int(h[:8], 16)


class ShardStats:
    def __init__(self):
        self.evaluations = 0
        self.nontrivial_hashes = set()
        self.classes = {}
        self.discarded = {}
        self.excluded_known = {}
        self.samples = []
        self.budget_skipped = 0
        self.failure = None  # dict(case, key, detail, family)
        self.notes = {}
        self.exhaustive = {}
        self.extra_distinct = 0

    def to_dict(self):
        return {'evaluations': self.evaluations, 'nontrivial_hashes': sorted(self.nontrivial_hashes), 'extra_distinct': self.extra_distinct,
                'classes': self.classes, 'discarded': self.discarded, 'excluded_known': self.excluded_known,
                'samples': self.samples, 'budget_skipped': self.budget_skipped, 'failure': self.failure,
                'notes': self.notes, 'exhaustive': self.exhaustive}


def _account(stats, mod, case, res, known, family, counting=True):
    """returns a Violation to raise on, or None"""
    if res.status == 'discard':
        if counting:
            stats.discarded[res.reason] = stats.discarded.get(res.reason, 0) + 1
        return None
    if counting:
        stats.evaluations += getattr(res, 'evals', 1) or 1
        for c in res.classes:
            stats.classes[c] = stats.classes.get(c, 0) + 1
    if res.status == 'violation':
        if res.key in known:
            if counting:
                stats.excluded_known[res.key] = stats.excluded_known.get(res.key, 0) + 1
            return None
        return res
    if counting:
        if res.nontrivial:
            h = case_hash(case)
            if getattr(res, 'distinct', None) is not None:
                if h not in stats.nontrivial_hashes:
                    stats.extra_distinct += max(0, res.distinct - 1)
            stats.nontrivial_hashes.add(h)
            if len(stats.samples) < 3:
                stats.samples.append({'family': family, 'case': truncate(res.sample if res.sample is not None else case)})
        if res.note:
            stats.notes[res.note] = stats.notes.get(res.note, 0) + 1
    return None


def run_shard(args):
    pid, tier, seed, shard, nshards, budget_s = args
    t0 = time.time()
    stats = ShardStats()
    try:
        from fjverif import env
        env.activate()
        import hypothesis
        from hypothesis import given, settings, HealthCheck, Phase
        mod = importlib.import_module('fjverif.props.' + pid.lower())
        if hasattr(mod, 'setup_worker'):
            mod.setup_worker()
        known = known_keys(pid)
        # ---- enumerations first (cheap, deterministic)
        for en in (mod.enumerations(tier) if hasattr(mod, 'enumerations') else []):
            n = 0
            complete = True
            for case in en['cases'](shard, nshards):
                if time.time() - t0 > budget_s:
                    stats.budget_skipped += 1
                    complete = False
                    break
                res = mod.run_case(case)
                n += 1
                v = _account(stats, mod, case, res, known, en['name'])
                if v is not None:
                    stats.failure = {'case': case, 'key': v.key, 'detail': v.detail, 'family': en['name']}
                    return stats.to_dict()
            stats.exhaustive[en['name']] = {'cases': n, 'complete': complete, 'exhaustive': bool(en.get('exhaustive'))}
        # ---- generated families
        for fam in mod.families(tier):
            n_examples = fam['examples']
            if n_examples <= 0:
                continue
            n_examples = max(1, int(n_examples * float(os.environ.get('FJVERIF_SCALE', '1'))))
            state = {'first_fail_t': None, 'last_fail': None, 'gave_up': False}
            shrink_cap = float(os.environ.get('FJVERIF_SHRINK_CAP_S') or (45 if tier == 'quick' else 200))

            def body(case):
                if state['gave_up']:
                    return
                if state['first_fail_t'] is None and time.time() - t0 > budget_s:
                    stats.budget_skipped += 1
                    return
                if state['first_fail_t'] is not None and time.time() - state['first_fail_t'] > shrink_cap:
                    state['gave_up'] = True
                    return
                res = mod.run_case(case)
                v = _account(stats, mod, case, res, known, fam['name'], counting=state['first_fail_t'] is None)
                if v is not None:
                    if state['first_fail_t'] is None:
                        state['first_fail_t'] = time.time()
                    state['last_fail'] = {'case': case, 'key': v.key, 'detail': v.detail, 'family': fam['name']}
                    raise _Fail(v.key)

            s = settings(max_examples=n_examples, database=None, deadline=None, derandomize=False,
                         report_multiple_bugs=False, print_blob=False,
                         suppress_health_check=list(HealthCheck),
                         phases=[Phase.generate, Phase.shrink])
            test = hypothesis.seed(shard_seed(pid, tier, seed, shard, fam['name']))(
                settings(s)(given(fam['strategy']())(body)))
            try:
                test()
            except BaseException as e:  # noqa
                if state['last_fail'] is not None:
                    stats.failure = state['last_fail']
                    return stats.to_dict()
                if isinstance(e, (KeyboardInterrupt, SystemExit)):
                    raise
                raise
        return stats.to_dict()
    except BaseException:  # harness error inside a worker
        d = stats.to_dict()
        d['harness_error'] = traceback.format_exc()
        return d
    finally:
        try:
            from fjverif import engines
            engines.cleanup_tmp()
        except Exception:
            pass


def sanitize(key):
    return re.sub(r'[^A-Za-z0-9_.-]+', '_', key)[:60]


def write_replay(pid, failure):
    d = os.path.join(os.environ.get('FJVERIF_REPLAY_DIR') or os.path.join(VERIF, 'replays'), pid)
    os.makedirs(d, exist_ok=True)
    name = 'new-%s-%s.json' % (sanitize(failure['key']), case_hash(failure['case'])[:8])
    path = os.path.join(d, name)
    with open(path, 'w') as f:
        json.dump({'property': pid, 'family': failure.get('family'), 'expect': 'ok', 'key': failure['key'],
                   'detail': failure.get('detail'), 'case': failure['case']}, f, indent=1, default=str)
    return path


def replay_tier(pid, mod, out):
    """run every committed replay file. returns (violations list, known lines, counts)"""
    d = os.path.join(VERIF, 'replays', pid)
    known = known_keys(pid)
    vio = []
    n = 0
    if not os.path.isdir(d):
        return vio, n
    for name in sorted(os.listdir(d)):
        if not name.endswith('.json'):
            continue
        path = os.path.join(d, name)
        with open(path) as f:
            rp = json.load(f)
        res = mod.run_case(rp['case'])
        n += 1
        if res.status == 'violation':
            if res.key in known:
                out.append('KNOWN-FINDING: property=%s %s [key=%s replay=%s]' % (pid, known[res.key]['what'], res.key,
                                                                              os.path.relpath(path, VERIF)))
            else:
                vio.append((path, res.key, res.detail))
    return vio, n


def main(argv=None):
    ap = argparse.ArgumentParser()
    ap.add_argument('pid')
    ap.add_argument('--tier', default=os.environ.get('VERIF_TIER', 'quick'))
    ap.add_argument('--replay')
    ap.add_argument('--shards', type=int, default=NSHARDS)
    ap.add_argument('--scale', type=float, default=1.0, help='scale example counts (debugging)')
    a = ap.parse_args(argv)
    pid = a.pid.upper()
    tier = a.tier if a.tier in ('quick', 'thorough') else 'quick'
    try:
        seed = int(os.environ.get('VERIF_SEED', '1'))
    except ValueError:
        seed = 1
    t0 = time.time()
    os.environ['FJVERIF_SCALE'] = str(a.scale)
    os.environ.setdefault('PYTHONHASHSEED', '0')
    try:
        from fjverif import env
        mod = importlib.import_module('fjverif.props.' + pid.lower())
        env.create_snapshot(asan=bool(getattr(mod, 'NEEDS_ASAN', False)))
        env.activate()
        if hasattr(mod, 'setup_worker'):
            mod.setup_worker()
    except Exception:
        traceback.print_exc()
        print('HARNESS-ERROR property=%s (setup)' % pid)
        return 2

    try:
        if a.replay:
            with open(a.replay) as f:
                rp = json.load(f)
            res = mod.run_case(rp['case'])
            known = known_keys(pid)
            if res.status == 'violation':
                if res.key in known:
                    print('KNOWN-FINDING: property=%s %s [key=%s]' % (pid, known[res.key]['what'], res.key))
                    return 0
                print('detail: %s' % json.dumps(res.detail, default=str)[:3000])
                print('VIOLATION property=%s replay=%s' % (pid, a.replay))
                return 1
            print('replay ok: %s (%s)' % (a.replay, res.status))
            return 0

        lines = []
        vio, n_replays = replay_tier(pid, mod, lines)
        for ln in lines:
            print(ln)
        violations = []
        for path, key, detail in vio:
            print('detail[%s]: %s' % (key, json.dumps(detail, default=str)[:2000]))
            print('VIOLATION property=%s replay=%s' % (pid, path))
            violations.append({'key': key, 'replay': path})

        budget_s = float(os.environ.get('FJVERIF_BUDGET_S', '240' if tier == 'quick' else '3000'))
        nsh = a.shards
        ctx = multiprocessing.get_context('fork')
        hard = budget_s * 2 + 600
        pool = ctx.Pool(nsh)
        try:
            results = pool.map_async(run_shard, [(pid, tier, seed, k, nsh, budget_s) for k in range(nsh)],
                                     chunksize=1).get(timeout=hard)
        except multiprocessing.TimeoutError:
            pool.terminate()
            print('HARNESS-ERROR property=%s (workers still running after %ds; inconclusive)' % (pid, hard))
            return 2
        finally:
            pool.terminate()
            pool.join()
        merged = ShardStats()
        harness_errors = []
        exhaustive_info = {}
        for k, r in enumerate(results):
            if r.get('harness_error'):
                harness_errors.append((k, r['harness_error']))
            merged.evaluations += r['evaluations']
            new_hashes = set(r['nontrivial_hashes']) - merged.nontrivial_hashes
            merged.nontrivial_hashes |= set(r['nontrivial_hashes'])
            merged.extra_distinct += r.get('extra_distinct', 0) if (new_hashes or not r['nontrivial_hashes']) else 0
            for field in ('classes', 'discarded', 'excluded_known', 'notes'):
                tgt = getattr(merged, field)
                for kk, vv in r[field].items():
                    tgt[kk] = tgt.get(kk, 0) + vv
            merged.budget_skipped += r['budget_skipped']
            if len(merged.samples) < 8:
                merged.samples.extend(r['samples'][:1 if k else 2])
            for name, info in r['exhaustive'].items():
                e = exhaustive_info.setdefault(name, {'cases': 0, 'complete': True, 'exhaustive': info['exhaustive']})
                e['cases'] += info['cases']
                e['complete'] = e['complete'] and info['complete']
            if r.get('failure'):
                path = write_replay(pid, r['failure'])
                print('detail[%s]: %s' % (r['failure']['key'], json.dumps(r['failure'].get('detail'), default=str)[:3000]))
                print('VIOLATION property=%s replay=%s' % (pid, path))
                violations.append({'key': r['failure']['key'], 'replay': path, 'shard': k})
        known_all = known_keys(pid)
        for kk, n in sorted(merged.excluded_known.items()):
            if kk in known_all and n:
                print('KNOWN-FINDING: property=%s %s [key=%s observed in %d generated cases of this run]' % (
                    pid, known_all[kk]['what'], kk, n))
        if harness_errors:
            for k, tb in harness_errors[:3]:
                print('HARNESS-ERROR shard %d:\n%s' % (k, tb), file=sys.stderr)
            print('HARNESS-ERROR property=%s (%d shards failed)' % (pid, len(harness_errors)))
            if not violations:
                return 2
        wall = time.time() - t0
        cov = {
            'evaluations': merged.evaluations,
            'distinct_nontrivial': len(merged.nontrivial_hashes) + merged.extra_distinct,
            'rule': mod.RULE,
            'samples': merged.samples[:8],
            'classes': dict(sorted(merged.classes.items())),
            'discarded': merged.discarded,
            'excluded_known': merged.excluded_known,
            'notes': merged.notes,
            'inconclusive_budget_skipped': merged.budget_skipped,
            'replay_files_run': n_replays,
            'enumerations': exhaustive_info,
            'exhaustive': bool(exhaustive_info) and all(e['complete'] and e['exhaustive'] for e in exhaustive_info.values())
            and not any(f['examples'] > 0 for f in mod.families(tier)),
            'shards': nsh,
            'shard_seed_rule': 'sha256("%s:%s:%d:<shard>:<family>")[:8]' % (pid, tier, seed),
        }
        if hasattr(mod, 'evidence_extra'):
            cov.update(mod.evidence_extra(tier))
        ev = {'property_id': pid, 'tier': tier, 'seed': seed, 'level': mod.LEVEL, 'coverage': cov,
              'assumptions': list(getattr(mod, 'ASSUMPTIONS', [])), 'wall_s': round(wall, 2),
              'violations': len(violations)}
        evdir = os.environ.get('FJVERIF_EVIDENCE_DIR') or os.path.join(VERIF, 'evidence')
        os.makedirs(evdir, exist_ok=True)
        with open(os.path.join(evdir, pid + '.json'), 'w') as f:
            json.dump(ev, f, indent=1, default=str)
        print('%s %s: evaluations=%d distinct_nontrivial=%d excluded_known=%s discarded=%s skipped=%d wall=%.1fs' % (
            pid, tier, merged.evaluations, len(merged.nontrivial_hashes) + merged.extra_distinct, merged.excluded_known,
            sum(merged.discarded.values()), merged.budget_skipped, wall))
        return 1 if violations else 0
    except Exception:
        traceback.print_exc()
        print('HARNESS-ERROR property=%s' % pid)
        return 2
    finally:
        try:
            from fjverif import env, engines
            engines.cleanup_tmp()
            env.cleanup_now()
        except Exception:
            pass


if __name__ == '__main__':
    sys.exit(main())
