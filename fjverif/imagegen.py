"""Execution-guided FlipJump image generator (DESIGN 3.2).

The generator walks the machine over a memory whose words are still undecided and draws each
word at the moment the simulated run first reads it, back-computing the *initial* value as
drawn ^ flips-so-far.  Everything random comes from the Hypothesis `draw` passed in.
"""
from hypothesis import strategies as st

MAGIC = 0xBB67AE8584CAA73B
PAGE = 1 << 14


class D:
    def __init__(self, draw):
        self.draw = draw

    def int(self, lo, hi):
        return self.draw(st.integers(lo, hi))

    def pct(self):
        return self.draw(st.integers(0, 99))

    def choice(self, seq):
        return seq[self.draw(st.integers(0, len(seq) - 1))]

    def bool(self):
        return self.draw(st.booleans())


LAYOUTS = {
    8: ['compact', 'few', 'few', 'top'],
    16: ['compact', 'few', 'few', 'lazytail', 'top'],
    32: ['compact', 'few', 'few', 'lazytail', 'pageedge', 'high', 'top', 'window'],
    64: ['compact', 'few', 'few', 'lazytail', 'pageedge', 'high', 'top', 'window', 'magic'],
}


def gen_layout(d, w, cls, big_ok=True):
    """-> list of [start, length, data_len] (word units), first one at 0."""
    ww = w.bit_length() - 1
    total = 1 << (w - ww)
    segs = []

    def free(s, l):
        return s >= 0 and l > 0 and s + l <= total and all(s + l <= a or a + b <= s for a, b, _ in segs)

    def add(s, l, dl=None):
        s &= ~1
        l = max(2, l & ~1)
        if not free(s, l):
            return False
        if dl is None:
            dl = l
        segs.append([s, l, min(dl, l) & ~1])
        return True

    if w == 8:
        add(0, 2 * d.int(2, 10))
    else:
        add(0, 2 * d.int(2, 40))
    if cls == 'compact':
        pass
    elif cls == 'few':
        for _ in range(d.int(1, 3)):
            if w == 8:
                add(2 * d.int(0, 15), 2 * d.int(1, 4))
            else:
                add(2 * d.int(0, 120), 2 * d.int(1, 12))
    elif cls == 'lazytail':
        # a zero tail: dense (<1000 words) or lazy (>=1000) in the reader
        base = segs[0]
        extra = d.choice([2, 10, 998, 1000, 1002, 3000] + ([1 << 16, (1 << 20) + 2] if (big_ok and w >= 32) else []))
        extra = min(extra, total - base[1])
        base[1] += extra & ~1
        if d.bool():
            s = base[1] + 2 * d.int(0, 50)
            dl = 2 * d.int(0, 6)
            add(s, dl + d.choice([1000, 1500, 2]), dl)
    elif cls == 'pageedge':
        k = d.choice([1, 1, 2, 3, 512])
        edge = k * PAGE
        before = 2 * d.int(0, 8)
        after = 2 * d.int(0, 8)
        if before + after == 0:
            after = 2
        add(edge - before, before + after)
        if d.bool():
            add(2 * d.int(30, 100), 2 * d.int(1, 6))
    elif cls == 'window':
        # around the default flat window (2^23 words)
        edge = 1 << 23
        before = 2 * d.int(0, 6)
        after = 2 * d.int(0, 6)
        if before + after == 0:
            before = 2
        add(edge - before, before + after)
    elif cls == 'high':
        exps = [20, 22, 26] if w == 32 else [20, 30, 40, 57]
        e = d.choice(exps)
        s = (1 << e) + d.choice([0, 0, -2 * d.int(1, 4), 2 * d.int(1, 4)])
        add(s, 2 * d.int(1, 10))
        if d.bool():
            add(2 * d.int(30, 100), 2 * d.int(1, 6))
    elif cls == 'top':
        l = 2 * d.int(1, 6 if w > 8 else 3)
        add(total - l, l)
    elif cls == 'magic':
        mw = MAGIC >> ww
        s = (mw & ~1) - 2 * d.int(0, 3)
        add(s, 2 * d.int(1 + ((mw - s) // 2), 8))
    return segs


class Builder:
    def __init__(self, d, w, layout, opts=None):
        self.d = d
        self.w = w
        self.ww = w.bit_length() - 1
        self.mask = (1 << w) - 1
        self.total = 1 << (w - self.ww)
        self.layout = layout
        self.opts = opts or {}
        self.cur = {}
        self.known = {}
        self.fl = {}
        self.init = {}
        self.hot = self._hot_words()
        self.hotset = set(self.hot)
        self.opslots = [wa for wa in self.hot if self.valid(wa + 1)]
        self.executed = []
        self.inbits = []
        self.forced_bit = None
        self.stop = None

    # ---- geometry
    def seg_of(self, wa):
        for s in self.layout:
            if s[0] <= wa < s[0] + s[1]:
                return s
        return None

    def valid(self, wa):
        return self.seg_of(wa) is not None

    def in_tail(self, wa):
        s = self.seg_of(wa)
        return s is not None and wa >= s[0] + s[2]

    def _hot_words(self):
        hot = []
        for s, l, dl in self.layout:
            idx = set(range(0, min(l, 64)))
            idx |= set(range(max(0, l - 8), l))
            idx |= set(range(max(0, dl - 4), min(l, dl + 4)))
            # page / window edges inside the segment
            for edge in (PAGE, 2 * PAGE, 3 * PAGE, 512 * PAGE, 1 << 23):
                if s < edge < s + l:
                    idx |= set(range(max(0, edge - s - 6), min(l, edge - s + 6)))
            hot.extend(s + i for i in sorted(idx))
        return sorted(set(hot))

    # ---- deciding bits
    def ensure(self, wa, want, wantmask):
        if self.in_tail(wa):
            # zero tail: initial value is fixed 0
            if wa not in self.known:
                self.known[wa] = self.mask
                self.init[wa] = 0
                self.cur[wa] = self.fl.get(wa, 0)
            return
        k = self.known.get(wa, 0)
        newbits = wantmask & ~k
        self.cur[wa] = (self.cur.get(wa, 0) & ~newbits) | (want & newbits)
        self.init[wa] = (self.init.get(wa, 0) & ~newbits) | ((want ^ self.fl.get(wa, 0)) & newbits)
        self.known[wa] = k | wantmask

    def readword(self, ba, chooser):
        """simulate reading the w-bit word at bit address ba; undecided bits are drawn by chooser()."""
        w, ww, mask = self.w, self.ww, self.mask
        wa, off = ba >> ww, ba & (w - 1)
        if off == 0:
            if not self.valid(wa):
                return None
            if self.known.get(wa, 0) != mask:
                self.ensure(wa, chooser(), mask)
            return self.cur[wa]
        if not self.valid(wa) or not self.valid(wa + 1):
            return None
        v = chooser()
        self.ensure(wa, (v << off) & mask, (mask << off) & mask)
        self.ensure(wa + 1, v >> (w - off), mask >> (w - off))
        return ((self.cur[wa] >> off) | (self.cur[wa + 1] << (w - off))) & mask

    # ---- choosers
    def pick_flip(self, terminal=False):
        d, w, ww, mask = self.d, self.w, self.ww, self.mask
        dw = 2 * w
        if terminal and d.pct() < 15:
            # a flip target outside every segment (the op faults before its jump word is read)
            r = d.pct()
            if r < 60:
                s = d.choice(self.layout)
                wa = d.choice([s[0] - 1, s[0] + s[1]])
                if wa >= 0 and wa < self.total and not self.valid(wa):
                    return ((wa << ww) + d.int(0, w - 1)) & mask
            v = d.int(0, mask)
            return v
        r = d.pct()
        if r < 12:
            return dw + d.int(0, 1)
        if r < 68:
            return ((d.choice(self.hot) << ww) + d.int(0, w - 1)) & mask
        if r < 82:
            # a bit of a known/fresh op slot (code word), incl. jump words of other ops
            un = [x for x in self.opslots if self.known.get(x, 0) == 0] if d.pct() < 80 else None
            wa = d.choice(un or self.opslots or self.hot)
            return (((wa + d.int(0, 1)) << ww) + d.int(0, w - 1)) & mask
        if r < 87:
            return ('own', d.int(0, dw - 1))
        if r < 91:
            return ('redirect',)
        if r < 93 and w == 64:
            return ('magic',)
        if r < 97:
            # edge words of a segment (inside)
            s = d.choice(self.layout)
            wa = d.choice([s[0], s[0] + s[1] - 1, s[0] + s[2] - 1 if s[2] else s[0], min(s[0] + s[2], s[0] + s[1] - 1)])
            return ((wa << ww) + d.int(0, w - 1)) & mask
        return d.int(0, dw - 1)

    def pick_jump(self, ip, f, terminal=False):
        d, w, ww, mask = self.d, self.w, self.ww, self.mask
        dw = 2 * w
        if terminal:
            r = d.pct()
            if r < 45:
                return ip
            if r < 55:
                return d.int(0, dw - 1)
            if r < 70:
                s = d.choice(self.layout)
                wa = d.choice([s[0] + s[1], max(0, s[0] - 1), s[0] + s[1] + 1])
                if r < 62:
                    return (wa << ww) & mask
                return d.int(0, mask)
            if r < 82:
                s = d.choice(self.layout)
                tops = [x for x in self.layout if x[0] + x[1] == self.total]
                if tops and d.bool():
                    s = tops[0]
                wa = s[0] + s[1] - 1  # flip word valid, jump word past the end
                return ((wa << ww) + d.choice([0, 0, d.int(1, w - 1)])) & mask
        r = d.pct()
        fresh = [x for x in self.opslots if self.known.get(x, 0) == 0 and self.known.get(x + 1, 0) == 0
                 and x >= 2 and not self.in_tail(x)]
        if self.forced_bit is not None and fresh:
            # the input bit just stored lies inside this op's jump word: only targets agreeing with it are reachable
            pos, ib = self.forced_bit
            agree = [x for x in fresh if (((x << ww) >> pos) & 1) == ib]
            if agree:
                fresh = agree
        if r < 58 and fresh:
            ev = [x for x in fresh if x % 2 == 0]
            wa = d.choice(ev) if ev else d.choice(fresh)
            return (wa << ww) & mask
        if r < 68 and fresh:
            wa = d.choice(fresh)
            return (wa << ww) & mask
        if r < 82:
            cands = [x for x in fresh if self.valid(x + 2) and self.known.get(x + 2, 0) == 0 and not self.in_tail(x + 2)]
            if cands:
                wa = d.choice(cands)
                return ((wa << ww) + d.int(1, w - 1)) & mask
        if r < 84:
            ex = [x for x in self.executed if x >= dw and x != ip]
            if ex:
                return d.choice(ex)
        if r < 94 and self.valid(2) and self.valid(3) and ip != dw and ((self.known.get(2, 0) == 0 and self.known.get(3, 0) == 0) or r < 86):
            return dw
        if r < 97 and ip <= f < ip + dw:
            return ip
        if fresh:
            return (d.choice(fresh) << ww) & mask
        cands = [x for x in self.opslots if x >= 2 and (x << ww) != ip]
        if cands:
            return (d.choice(cands) << ww) & mask
        return ip

    # ---- the walk
    def walk(self, max_steps):
        d, w, ww, mask = self.d, self.w, self.ww, self.mask
        dw = 2 * w
        in_addr = 3 * w + ww + 1
        ip = 0
        idle = 0
        for step in range(max_steps):
            holder = {}
            self.forced_bit = None
            last = step == max_steps - 1

            def flip_chooser():
                holder['drew'] = True
                v = self.pick_flip(last)
                if isinstance(v, tuple):
                    if v[0] == 'own':
                        return (ip + v[1]) & mask
                    if v[0] == 'redirect':
                        # self-modifying revisit: flip one bit of an executed op's jump word so that its
                        # next execution lands on a fresh slot, then jump back to that op
                        fresh = set(x for x in self.opslots if x >= 2 and x % 2 == 0 and self.known.get(x, 0) == 0
                                    and self.known.get(x + 1, 0) == 0 and not self.in_tail(x))
                        ex = [e for e in self.executed if e >= dw and e != ip and e & (w - 1) == 0
                              and self.known.get((e >> ww) + 1, 0) == mask]
                        if ex and fresh:
                            e = d.choice(ex)
                            jw = (e >> ww) + 1
                            opts = [b for b in range(ww + 1, min(w, ww + 12))
                                    if ((self.cur[jw] ^ (1 << b)) & (w - 1)) == 0 and ((self.cur[jw] ^ (1 << b)) >> ww) in fresh]
                            if opts:
                                b = d.choice(opts)
                                holder['next'] = e
                                return ((jw << ww) + b) & mask
                        return ((d.choice(self.hot) << ww) + d.int(0, w - 1)) & mask
                    # 'magic': make some fresh word hold MAGIC^bit and flip that bit
                    cands = [x for x in self.hot if self.known.get(x, 0) == 0 and not self.in_tail(x)]
                    if not cands:
                        return MAGIC
                    wa = d.choice(cands)
                    b = d.int(0, w - 1)
                    holder['magic'] = (wa, b)
                    return ((wa << ww) + b) & mask
                return v

            f = self.readword(ip, flip_chooser)
            if f is None:
                self.stop = 'flipword-invalid'
                break
            self.executed.append(ip)
            if 'magic' in holder:
                wa, b = holder['magic']
                if self.known.get(wa, 0) == 0:
                    self.ensure(wa, MAGIC ^ (1 << b), mask)
            if ip <= in_addr < ip + dw:
                iw, ibit = in_addr >> ww, 1 << (in_addr & (w - 1))
                if not self.valid(iw):
                    self.stop = 'inputword-invalid'
                    break
                ib = d.int(0, 1)
                self.inbits.append(ib)
                if 0 <= in_addr - (ip + w) < w:
                    self.forced_bit = (in_addr - (ip + w), ib)
                self.ensure(iw, 0, ibit)
                self.cur[iw] = (self.cur[iw] & ~ibit) | (ibit if ib else 0)
            fw = f >> ww
            if not self.valid(fw):
                self.stop = 'fliptarget-invalid' + ('(drawn)' if holder.get('drew') else '(known word)')
                break
            bit = 1 << (f & (w - 1))
            if self.in_tail(fw) and fw not in self.known:
                self.ensure(fw, 0, 0)
            if self.known.get(fw, 0) & bit:
                self.cur[fw] ^= bit
            self.fl[fw] = self.fl.get(fw, 0) ^ bit
            def jump_chooser():
                holder['drew'] = True
                if 'next' in holder:
                    return holder['next']
                return self.pick_jump(ip, f, last)

            j = self.readword(ip + w, jump_chooser)
            if holder.get('drew'):
                idle = 0
            else:
                idle += 1
                if idle >= 6:
                    self.stop = 'idle'
                    break
            if j is None:
                self.stop = 'jumpword-invalid'
                break
            if j == ip and not (ip <= f < ip + dw):
                self.stop = 'loop'
                break
            if j < dw:
                self.stop = 'nullip'
                break
            ip = j
        else:
            self.stop = 'steps'

    def finish(self):
        """-> segments [[start, length, data]]"""
        d, mask = self.d, self.mask
        out = []
        for s, l, dl in self.layout:
            data = []
            rnd_style = d.int(0, 3)
            for i in range(dl):
                wa = s + i
                k = self.known.get(wa, 0)
                v = self.init.get(wa, 0) & k
                if k != mask:
                    if rnd_style == 0:
                        r = 0
                    elif rnd_style == 1 and self.w == 64 and d.pct() < 30:
                        r = MAGIC
                    else:
                        r = d.int(0, mask)
                    v |= r & ~k
                data.append(v & mask)
            # trimming an all-zero data tail must not change the image
            if d.pct() < 30:
                while len(data) >= 2 and data[-1] == 0 and data[-2] == 0:
                    data.pop()
                    data.pop()
            out.append([s, l, data])
        return out


def fix_input_flips(builder):
    """The input bit is *overwritten* by input, so flips of that bit before the write do not carry over.
    The builder treats the bit as decided at the time of the input write; nothing to fix for the image
    (the initial value of that bit is free).  Kept for documentation."""


@st.composite
def images(draw, widths=(8, 8, 16, 32, 64), max_steps_choices=(6, 20, 40, 80, 150), layouts=None, big_ok=True):
    d = D(draw)
    w = d.choice(list(widths))
    cls = d.choice(layouts[w] if layouts else LAYOUTS[w])
    layout = gen_layout(d, w, cls, big_ok=big_ok)
    b = Builder(d, w, layout)
    b.walk(d.choice(list(max_steps_choices)))
    segs = b.finish()
    inbits = list(b.inbits)
    r = d.pct()
    if r < 15 and inbits:
        inbits = inbits[:d.int(0, len(inbits) - 1)]
    elif r < 30:
        inbits = inbits + [d.int(0, 1) for _ in range(d.int(1, 9))]
    return {'w': w, 'layout': cls, 'segments': segs, 'input_bits': inbits, 'version': d.int(0, 3)}


@st.composite
def dense_w8(draw):
    """w=8: the whole address space is 32 words; near-uniform random words interact by themselves."""
    d = D(draw)
    w = 8
    n0 = 2 * d.int(2, 16)
    layout = [[0, n0, n0]]
    if n0 < 28 and d.bool():
        s = (n0 + 2 * d.int(0, (32 - n0) // 2 - 1)) & ~1
        l = 2 * d.int(1, (32 - s) // 2)
        layout.append([s, l, l])
    segs = []
    for s, l, dl in layout:
        data = []
        for i in range(dl):
            r = d.pct()
            if r < 50:
                # an aligned-ish bit address inside the space
                data.append(d.int(0, 255))
            elif r < 75:
                data.append((2 * d.int(1, 15)) << 3 & 0xFF)
            elif r < 85:
                data.append(d.choice([16, 17, 28, 24, 0, 8]))
            else:
                data.append(d.int(16, 255))
        segs.append([s, l, data])
    nin = d.choice([0, 0, 3, 8, 20])
    inbits = [d.int(0, 1) for _ in range(nin)]
    return {'w': w, 'layout': 'dense8', 'segments': segs, 'input_bits': inbits, 'version': d.int(0, 3)}


# ------------------------------------------------------------------ long runs (op counts around the native engine's 2^18 signal-poll stride)

def long_ring_segments(w, P, k, out_every=7):
    """op 0 -> k prefix ops -> ring of P ops that passes through the input op at address 2w once per lap.  With an
    all-zero input of I bits the run ends by end of input after 1 + k + (I + 1) * (P + 1) - P ... ops (taken from the
    reference machine, not from a formula); some ring ops output a bit, the others toggle data bits."""
    dw = 2 * w
    nslots = 2 + k + P
    data0 = 2 * nslots
    words = []
    first_ring = 2 + k
    words += [0, 2 * dw if k else first_ring * dw]
    words += [data0 * w + 1, first_ring * dw]
    for i in range(k):
        words += [data0 * w + 2 + (i % (w - 3)), (2 + i + 1) * dw]
    for i in range(P):
        s = first_ring + i
        nxt = (s + 1) * dw if i + 1 < P else dw
        f = dw + (i // out_every % 2) if i % out_every == 3 else (data0 + 2 + (i % 5)) * w + (i % w)
        words += [f, nxt]
    words += [0] * 10
    return [[0, len(words), words]]


@st.composite
def long_rings(draw):
    """total op count lands within +-2 of a multiple of 2^18 (the stride at which the native loops poll signals and
    refresh their bookkeeping) or a little beyond it"""
    d = D(draw)
    w = d.choice([16, 32, 64])
    P = d.choice([255, 256, 1000, 1024, 4096] if w > 16 else [255, 256, 1000])   # 2^16 bits hold 2048 ops only
    stride = 1 << 18
    mult = d.choice([1, 1, 2])
    I = (mult * stride) // (P + 1) + 1
    target = mult * stride + d.choice([-2, -1, 0, 1, 2, 5, 1000])
    from fjverif import machine
    base = machine.run(w, long_ring_segments(w, P, 0), [0] * I, budget=4 * stride)
    # every prefix op adds exactly one executed op; fewer input bits remove whole laps
    while base.ops > target and I > 1:
        I -= 1
        base = machine.run(w, long_ring_segments(w, P, 0), [0] * I, budget=4 * stride)
    k = target - base.ops
    if k < 0 or k > 4000 or (w == 16 and 2 * (2 + k + P) + 12 > (1 << 16) // w):
        k = 0
    return {'kind': 'longring', 'w': w, 'segments': long_ring_segments(w, P, k), 'input_bits': [0] * I, 'version': d.int(0, 3),
            'layout': 'longring', 'P': P, 'k': k}
