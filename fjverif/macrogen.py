"""Macro-program generator, renderer and reference inliner (DESIGN 3.4) for C03 / C16 (and reused by C13 / C14).

Items (JSON-able):
  ['stmt', S]                      S as in asmref (ids are RESOLVED: local names plain, global names full dotted names)
  ['def', name, params, locals, body]          defined in the enclosing namespace
  ['call', full_macro_name, args]              args = expression ASTs
  ['rep', nExpr, iterator, full_macro_name, args]
  ['ns', name, items]
Macro bodies hold 'stmt' / 'call' / 'rep' items only.
"""
from fjverif import asmref, exprref

POOL = ['a', 'b', 'd', 'i', 'l', 'x', 'n']


# ------------------------------------------------------------------ rendering

class Renderer:
    def __init__(self, spell_seed=0, style='min'):
        self.lines = []
        self.seed = spell_seed
        self.style = style
        self.call_lines = {}   # id(item) -> line number (1-based) within the current file
        self.tick = 0

    def spell(self, full, ns):
        """a spelling of the global name `full` valid inside namespace list `ns`"""
        self.tick += 1
        opts = []
        parts = full.split('.')
        if len(parts) > 1:
            opts.append(full)                       # absolute dotted
        else:
            opts.append(full)                       # plain global
        for up in range(0, len(ns) + 1):
            base = ns[:len(ns) - up]
            if parts[:len(base)] == base and len(parts) > len(base):
                opts.append('.' * (up + 1) + '.'.join(parts[len(base):]))
        return opts[(self.seed + self.tick * 7) % len(opts)]

    def expr(self, e, ns, scope):
        def conv(x):
            k = x[0]
            if k == 'id':
                name = x[1]
                if name in scope or name == 'w':
                    return ['id', name]
                return ['id', self.spell(name, ns)]
            if k == 'dollar':
                return ['id', '$']
            if k == 'u':
                return ['u', x[1], conv(x[2])]
            if k == 'b':
                return ['b', x[1], conv(x[2]), conv(x[3])]
            if k == 't':
                return ['t', conv(x[1]), conv(x[2]), conv(x[3])]
            return x
        return exprref.render(conv(e), self.style)

    def stmt(self, s, ns, scope):
        k = s[0]
        E = lambda e: self.expr(e, ns, scope)  # noqa
        if k == 'op':
            f = '' if s[1] is None else E(s[1])
            j = '' if s[2] is None else E(s[2])
            if s[1] is not None and asmref.starts_with_identifier(s[1]):
                f = '(' + f + ')'
            return f + ';' + (' ' + j if j else '')
        if k == 'label':
            name = s[1]
            return (name.split('.')[-1] if name not in scope else name) + ':'
        if k == 'const':
            return '%s = %s' % (s[1].split('.')[-1], E(s[2]))
        if k == 'wflip':
            t = 'wflip %s, %s' % (E(s[1]), E(s[2]))
            return t + (', ' + E(s[3]) if s[3] is not None else '')
        if k in ('pad', 'segment', 'reserve'):
            return '%s %s' % (k, E(s[1]))
        raise ValueError(k)

    def items(self, items, ns, scope, indent=''):
        for it in items:
            k = it[0]
            if k == 'stmt':
                self.lines.append(indent + self.stmt(it[1], ns, scope))
            elif k == 'call':
                self.call_lines[id(it)] = len(self.lines) + 1
                args = ', '.join(self.expr(a, ns, scope) for a in it[2])
                # a first argument starting with '-' / '(' would parse differently: always fine after a space
                self.lines.append(indent + (self.spell(it[1], ns) + ' ' + args).rstrip())
            elif k == 'rep':
                self.call_lines[id(it)] = len(self.lines) + 1
                args = ', '.join(self.expr(a, ns, scope | {it[2]}) for a in it[4])
                self.lines.append(indent + ('rep(%s, %s) %s %s' % (self.expr(it[1], ns, scope), it[2], self.spell(it[3], ns), args)).rstrip())
            elif k == 'def':
                _, name, params, locals_, body = it
                head = 'def %s %s' % (name, ', '.join(params))
                if locals_:
                    head += ' @ ' + ', '.join(locals_)
                self.call_lines[('def', id(it))] = len(self.lines) + 1
                self.lines.append(indent + head.rstrip() + ' {')
                self.items(body, ns, set(params) | set(locals_), indent + '    ')
                if not body:
                    self.lines.append('')
                self.lines.append(indent + '}')
            elif k == 'ns':
                self.lines.append(indent + 'ns %s {' % it[1])
                self.items(it[2], ns + [it[1]], scope, indent + '    ')
                if not it[2]:
                    self.lines.append('')
                self.lines.append(indent + '}')
            else:
                raise ValueError(k)


def render(items, spell_seed=0, style='min'):
    r = Renderer(spell_seed, style)
    r.items(items, [], set())
    return '\n'.join(r.lines) + '\n', r


# ------------------------------------------------------------------ inlining (reference semantics)

class InlineError(Exception):
    pass


def collect_defs(items, ns, out):
    for it in items:
        if it[0] == 'def':
            full = '.'.join(ns + [it[1]])
            key = (full, len(it[2]))
            if key in out:
                raise InlineError('macro defined twice')
            out[key] = (it, list(ns))
        elif it[0] == 'ns':
            collect_defs(it[2], ns + [it[1]], out)


def subst(e, env):
    k = e[0]
    if k == 'id':
        return env.get(e[1], e)
    if k == 'u':
        return ['u', e[1], subst(e[2], env)]
    if k == 'b':
        return ['b', e[1], subst(e[2], env), subst(e[3], env)]
    if k == 't':
        return ['t', subst(e[1], env), subst(e[2], env), subst(e[3], env)]
    return e


class Inliner:
    def __init__(self, items, w, short_names=None):
        self.w = w
        self.defs = {}
        collect_defs(items, [], self.defs)
        self.out = []            # primitive statements (asmref form) with global names mapped to plain ids
        self.fresh = 0
        self.rename = {}         # global full name -> plain unique id
        self.consts = {'w': w}
        self.debug_names = []    # (documented debug name, inlined label id) for every declared label
        self.max_depth = 0
        self.collisions = 0
        self.n_expansions = {}

    def gname(self, full):
        if full not in self.rename:
            self.rename[full] = 'g%d_%s' % (len(self.rename), full.replace('.', '_'))
        return self.rename[full]

    def final_expr(self, e):
        """map global label names to their plain ids, constants to literals"""
        k = e[0]
        if k == 'id':
            if e[1] in self.consts:
                return ['n', self.consts[e[1]], 'dec'] if self.consts[e[1]] >= 0 else ['b', '-', ['n', 0, 'dec'], ['n', -self.consts[e[1]], 'dec']]
            if e[1].startswith('@'):
                return ['id', e[1][1:]]
            return ['id', self.gname(e[1])]
        if k == 'u':
            return ['u', e[1], self.final_expr(e[2])]
        if k == 'b':
            return ['b', e[1], self.final_expr(e[2]), self.final_expr(e[3])]
        if k == 't':
            return ['t', self.final_expr(e[1]), self.final_expr(e[2]), self.final_expr(e[3])]
        return e

    def const_value(self, e, env):
        e = subst(e, env)
        return asmref.ev(self.final_expr(e), {})

    def expand(self, items, ns, env, path, depth, pos):
        """pos: callable(item) -> (short_file, line) of a call site, for the documented debug names"""
        self.max_depth = max(self.max_depth, depth)
        for it in items:
            k = it[0]
            if k == 'stmt':
                s = it[1]
                kk = s[0]
                if kk == 'const':
                    full = '.'.join(ns + [s[1]])
                    self.consts[full] = self.const_value(s[2], env)
                elif kk == 'label':
                    name = s[1]
                    if name in env:
                        tgt = env[name]
                        if tgt[0] != 'id':
                            raise InlineError('label parameter bound to a non-identifier')
                        lab = tgt[1]
                    else:
                        lab = '.'.join(ns + [name]) if depth == 0 else name
                    if lab.startswith('@'):
                        plain = lab[1:]
                    else:
                        plain = self.gname(lab)
                        self.debug_names.append((lab, plain))
                    self.out.append(['label', plain])
                elif kk == 'op':
                    self.out.append(['op'] + [None if x is None else self.final_expr(subst(x, env)) for x in s[1:3]])
                elif kk == 'wflip':
                    self.out.append(['wflip'] + [None if x is None else self.final_expr(subst(x, env)) for x in s[1:4]])
                else:
                    self.out.append([kk, self.final_expr(subst(s[1], env))])
            elif k == 'call':
                self.call(it, it[1], [subst(a, env) for a in it[2]], path, depth, pos, None)
            elif k == 'rep':
                n = self.const_value(it[1], env)
                if n < 0:
                    raise InlineError('negative rep count')
                for i in range(n):
                    env_i = dict(env)
                    env_i[it[2]] = ['n', i, 'dec']
                    # the iterator is visible in the arguments only, and shadows an outer name there
                    args = [subst(a, env_i) for a in it[4]]
                    self.call(it, it[3], args, path, depth, pos, i)
            elif k == 'def':
                continue
            elif k == 'ns':
                self.expand(it[2], ns + [it[1]], env, path, depth, pos)

    def call(self, item, full, args, path, depth, pos, rep_index):
        key = (full, len(args))
        if key not in self.defs:
            raise InlineError('unknown macro %s/%d' % key)
        if depth > 40:
            raise InlineError('recursion')
        d, dns = self.defs[key]
        _, name, params, locals_, body = d
        short, line = pos(item)
        mname = full if not args else '%s(%d)' % (full, len(args))
        elem = '%s:l%d:%s%s' % (short, line, 'rep%d:' % rep_index if rep_index is not None else '', mname)
        new_path = (path + '---' if path else '') + elem
        self.n_expansions[key] = self.n_expansions.get(key, 0) + 1
        env = dict(zip(params, args))
        for loc in locals_:
            self.fresh += 1
            plain = 'L%d_%s' % (self.fresh, loc)
            env[loc] = ['id', '@' + plain]
            self.debug_names.append((new_path + '---' + loc, plain))
        self.expand(body, dns, env, new_path, depth + 1, pos)


def inline(items, w, pos=None):
    inl = Inliner(items, w)
    inl.expand(items, [], {}, '', 0, pos or (lambda it: ('f1', 0)))
    return inl
