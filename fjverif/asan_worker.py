"""Worker executed under the ASan+UBSan build of _fjcore (LD_PRELOAD=libclang_rt.asan).
Protocol: one JSON case per stdin line -> one JSON result per stdout line.  A sanitizer report aborts the process;
the parent attributes the death to the case it sent last.
"""
import contextlib
import io
import json
import os
import sys
import tempfile
from pathlib import Path


def expand_segments(case):
    """-> (segments4, pool) for fjmref.encode"""
    w = case['w']
    segs4 = []
    pool = []
    for s, l, data in case['segments']:
        ds = len(pool)
        pool.extend(data)
        segs4.append((s, l, ds, len(data)))
    many = case.get('many')
    if many:
        n, start, stride = many
        for i in range(n):
            segs4.append((start + i * stride, 2, 0, 0))
    order = case.get('order')
    if order == 'reversed':
        segs4 = segs4[:1] + segs4[1:][::-1]
    return segs4, pool


class Script:
    def __init__(self, accesses, results):
        self.by_k = {}
        for a in accesses:
            self.by_k.setdefault(a[0], []).append(a)
        self.results = results

    def _do(self, dev, lst):
        for _, op, addr, val in lst:
            try:
                if op == 'rw':
                    self.results.append(dev.mem.read_word(addr))
                elif op == 'ww':
                    dev.mem.write_word(addr, val)
                elif op == 'rb':
                    self.results.append(dev.mem.read_data_byte(addr))
                elif op == 'wb':
                    dev.mem.write_data_byte(addr, val)
            except (ValueError, OverflowError, MemoryError) as e:
                self.results.append(type(e).__name__)

    def on_attach(self, dev):
        self._do(dev, self.by_k.get(0, []))

    def on_call(self, dev, k, kind, bit):
        self._do(dev, self.by_k.get(k, []))
        return None


def run_one(case, tmp):
    from fjverif import engines, fjmref
    w = case['w']
    segs4, pool = expand_segments(case)
    b = fjmref.encode(w, case.get('version', 0), segs4, pool)
    path = Path(tmp) / 'c11.fjm'
    with open(path, 'wb') as f:
        f.write(b)
    results = []
    out = {'outcomes': []}
    for cfg in case['configs']:
        res = []
        dev = engines.make_rec_device(case['input_bits'], script=Script(case.get('accesses', []), res))
        o = engines.run_engine(path, 'native', dev, last_len=cfg.get('last_len'), flat=cfg.get('flat'),
                               knobs={'no_flat': cfg.get('no_flat'), 'measure': cfg.get('measure'), 'env_flat': cfg.get('env_flat')},
                               timeout=6)
        out['outcomes'].append({'exc': type(o.exc).__name__ if o.exc is not None else None,
                                'exc_repr': repr(o.exc)[:200] if o.exc is not None else None,
                                'cause': o.cause, 'ops': o.ops, 'fault': o.fault, 'storage': o.storage,
                                'calls': len(dev.calls), 'dev_results': len(res)})
    if case.get('reuse'):
        out['reuse'] = reuse_one_memory_object(case, path)
    return out


def reuse_one_memory_object(case, path):
    """ONE _fjcore.Memory object driven through several run() calls (with / without a last-ops ring, ended normally or by
    an exception raised from an IO callback), its result attributes read after each - as an embedding application that
    keeps the object would do.  Only memory safety is at stake here (ASan); the values are not compared."""
    from fjverif import engines
    from flipjump.fjm import fjm_reader
    from flipjump.interpreter import fjm_run
    from flipjump.utils.exceptions import IOReadOnEOF, FlipJumpException
    core = fjm_run._fjcore
    try:
        reader = fjm_reader.Reader(path)
    except FlipJumpException:
        return 'unreadable'
    m = core.Memory(reader.memory_width)
    try:
        for seg in reader.memory_segments:
            m.add_segment(seg.segment_start, seg.segment_length)
        for wa in sorted(reader.memory):
            m.set_words(wa, [reader.memory[wa]])
    except (ValueError, OverflowError, MemoryError) as e:
        return 'unloadable:' + type(e).__name__
    bits = list(case['input_bits'])
    log = []

    class RaisingTruth:
        # what a device may hand back from read_bit: an object whose truth value cannot be taken (e.g. a numpy array)
        def __bool__(self):
            raise ValueError('truth value of this object is ambiguous')
    kept = RaisingTruth()
    for ring, fail_at, exc_kind in case['reuse']:
        calls = [0]
        pos = [0]
        before = sys.getrefcount(kept)

        def tick():
            calls[0] += 1
            if fail_at and calls[0] == fail_at:
                raise (KeyboardInterrupt() if exc_kind == 'kbd' else ValueError('planned'))

        def rb():
            if exc_kind == 'badbool' and fail_at and calls[0] + 1 == fail_at:
                calls[0] += 1
                return kept
            tick()
            if pos[0] >= len(bits):
                raise IOReadOnEOF('eof')
            pos[0] += 1
            return bool(bits[pos[0] - 1])

        def wb(b):
            tick()
        try:
            with engines.hang_guard(4):
                r = m.run(rb, wb, IOReadOnEOF, last_ops_length=ring)
            log.append(['ok', r[0], r[1]])
        except BaseException as e:  # noqa
            log.append(['exc', type(e).__name__])
        # what fjm_run reads back on either path
        log.append([len(m.last_run_last_ops), m.last_run_op_count, m.storage_mode])
        sys.exc_info()
        delta = sys.getrefcount(kept) - before
        if delta:
            return {'refcount_delta': delta, 'after': [ring, fail_at, exc_kind]}
    del m
    return log


def main():
    from fjverif import env
    env.activate()
    tmp = tempfile.mkdtemp(prefix='asanw.', dir=os.environ.get('FJVERIF_SNAPSHOT'))
    sys.stdout.write(json.dumps({'ready': True}) + '\n')
    sys.stdout.flush()
    for line in sys.stdin:
        line = line.strip()
        if not line:
            continue
        case = json.loads(line)
        try:
            with contextlib.redirect_stderr(sys.stderr):
                r = run_one(case, tmp)
            r['ok'] = True
        except BaseException as e:  # noqa
            r = {'ok': False, 'harness_exc': repr(e)[:300]}
        sys.stdout.write(json.dumps(r) + '\n')
        sys.stdout.flush()


if __name__ == '__main__':
    main()
