"""Reference FlipJump machine, written from the statement of C01 (no code shared with flipjump).

Memory is a dict word-address -> value holding *only* in-segment words.  A step:
  f = word(ip); output if f in {2w, 2w+1}; input if ip <= 3w+#w < ip+2w; flip bit f;
  j = word(ip+w); ops += 1; halt tests; ip = j.
"""

LOOPING, EOF, NULLIP, MEMERR, BUDGET, KBD, DEVEXC = (
    'Looping', 'EOF', 'NullIP', 'RuntimeMemoryError', 'BUDGET', 'KeyboardInterrupt', 'DeviceException')


class Fault(Exception):
    def __init__(self, address):
        self.address = address


class DeviceStop(Exception):
    """raised by a device hook to model a failing IO call: kind = 'kbd' | 'exc'."""

    def __init__(self, kind, payload=None):
        self.kind = kind
        self.payload = payload


class EofSignal(Exception):
    pass


class Result:
    __slots__ = ('cause', 'ops', 'fault', 'out', 'calls', 'mem', 'ips', 'touched', 'flags', 'stop_payload', 'n_in')

    def __init__(self):
        self.cause = None
        self.ops = 0
        self.fault = None
        self.out = []
        self.calls = []
        self.mem = None
        self.ips = []
        self.touched = set()
        self.flags = set()
        self.stop_payload = None
        self.n_in = 0


def load(w, segments):
    """segments: [[start, length, [data words]]...] -> (mem dict with zeros to length, valid predicate ranges)"""
    mem = {}
    ranges = []
    big = []
    for s, l, d in segments:
        ranges.append((s, s + l))
        if l - len(d) > 5000:
            # lazy zero tail: do not materialise
            for i, v in enumerate(d):
                mem[s + i] = v
            big.append((s + len(d), s + l))
        else:
            for i in range(l):
                mem[s + i] = d[i] if i < len(d) else 0
    return mem, ranges, big


class Machine:
    def __init__(self, w, segments, input_bits=(), device=None, budget=20000):
        self.w = w
        self.ww = w.bit_length() - 1
        self.mask = (1 << w) - 1
        self.mem, self.ranges, self.lazy = load(w, segments)
        self.inp = list(input_bits)
        self.device = device  # optional object: on_write(machine, k, bit), on_read(machine, k) -> bit/raises
        self.budget = budget
        self.k_io = 0

    # -- memory
    def valid(self, wa):
        for a, b in self.ranges:
            if a <= wa < b:
                return True
        return False

    def rword(self, wa):
        v = self.mem.get(wa)
        if v is None:
            if self.lazy:
                for a, b in self.lazy:
                    if a <= wa < b:
                        self.mem[wa] = 0
                        return 0
            raise Fault(wa << self.ww)
        return v

    def peek(self, wa):
        """device-style read: current value if in a segment, else None"""
        if wa in self.mem:
            return self.mem[wa]
        for a, b in self.lazy:
            if a <= wa < b:
                return 0
        return None

    def getword(self, ba, res):
        wa, off = ba >> self.ww, ba & (self.w - 1)
        if off == 0:
            res.touched.add(wa)
            return self.rword(wa)
        res.flags.add('unaligned')
        lo = self.rword(wa)
        res.touched.add(wa)
        hi = self.rword(wa + 1)
        res.touched.add(wa + 1)
        return ((lo >> off) | (hi << (self.w - off))) & self.mask

    def run(self):
        w, ww = self.w, self.ww
        dw = 2 * w
        in_addr = 3 * w + ww + 1
        res = Result()
        res.mem = self.mem
        ip = 0
        try:
            while True:
                if res.ops >= self.budget:
                    res.cause = BUDGET
                    return res
                res.ips.append(ip)
                try:
                    f = self.getword(ip, res)
                except Fault as e:
                    res.flags.add('fault:flipword')
                    raise
                if f == dw or f == dw + 1:
                    bit = f - dw
                    self.k_io += 1
                    res.calls.append('w%d' % bit)
                    if self.device is not None:
                        self.device.on_write(self, self.k_io, bit)
                    res.out.append(bit)
                    if ip <= in_addr < ip + dw:
                        res.flags.add('out+in same op')
                if ip <= in_addr < ip + dw:
                    if ip & (w - 1):
                        res.flags.add('input@unaligned-ip')
                    self.k_io += 1
                    try:
                        if self.device is not None:
                            b = self.device.on_read(self, self.k_io)
                        else:
                            if not self.inp:
                                raise EofSignal()
                            b = self.inp.pop(0)
                    except EofSignal:
                        res.calls.append('E')
                        res.cause = EOF
                        return res
                    res.n_in += 1
                    res.calls.append('r%d' % int(b))
                    iw = in_addr >> ww
                    try:
                        v = self.rword(iw)
                    except Fault:
                        res.flags.add('fault:inputword')
                        raise
                    res.touched.add(iw)
                    bm = 1 << (in_addr & (w - 1))
                    self.mem[iw] = (v | bm) if b else (v & ~bm)
                fw = f >> ww
                try:
                    v = self.rword(fw)
                except Fault:
                    res.flags.add('fault:fliptarget')
                    raise
                res.touched.add(fw)
                self.mem[fw] = v ^ (1 << (f & (w - 1)))
                if ip <= f < ip + w:
                    res.flags.add('flips own flip word')
                elif ip + w <= f < ip + dw:
                    res.flags.add('flips own jump word')
                elif ip + dw <= f < ip + 2 * dw:
                    res.flags.add('flips next op')
                try:
                    j = self.getword(ip + w, res)
                except Fault:
                    res.flags.add('fault:jumpword')
                    raise
                res.ops += 1
                if j == ip:
                    if not (ip <= f < ip + dw):
                        res.cause = LOOPING
                        return res
                    res.flags.add('self-jump with self-flip')
                if j < dw:
                    res.cause = NULLIP
                    return res
                ip = j
        except Fault as e:
            res.cause = MEMERR
            res.fault = e.address
            return res
        except DeviceStop as e:
            res.cause = KBD if e.kind == 'kbd' else DEVEXC
            res.stop_payload = e.payload
            return res


def run(w, segments, input_bits=(), device=None, budget=20000):
    return Machine(w, segments, input_bits, device, budget).run()
