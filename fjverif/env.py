"""Snapshot of /repo's *current working tree* + fresh native build.

Every check process tests a private copy of /repo/flipjump (python + stl + _fjcore.c) with a
freshly compiled native engine, never the editable install's stale .so.
"""
import atexit
import os
import shutil
import subprocess
import sys
import sysconfig
import tempfile
import time

REPO = os.environ.get('FJVERIF_REPO', '/repo')
ENV_SNAPSHOT = 'FJVERIF_SNAPSHOT'
_created = []


class HarnessError(Exception):
    """Machinery failure (exit code 2, never a VIOLATION)."""


def _scratch_root():
    root = os.environ.get('FJVERIF_SCRATCH') or '/var/tmp'
    os.makedirs(root, exist_ok=True)
    return root


def _sweep_old(root):
    now = time.time()
    try:
        for name in os.listdir(root):
            if name.startswith('fjverif.'):
                p = os.path.join(root, name)
                try:
                    if now - os.path.getmtime(p) > 6 * 3600:
                        shutil.rmtree(p, ignore_errors=True)
                except OSError:
                    pass
    except OSError:
        pass


def _copy_tree(src, dst):
    def ignore(d, names):
        return [n for n in names if n == '__pycache__' or n.endswith('.so') or n.endswith('.pyc')]

    shutil.copytree(src, dst, ignore=ignore)


def _build_native(snap, asan=False):
    inc = sysconfig.get_paths()['include']
    src = os.path.join(snap, 'flipjump', 'interpreter', '_fjcore.c')
    if asan:
        out_dir = os.path.join(snap, 'asan', 'flipjump')
        # an overlay package dir: same python sources, sanitizer build of the extension
        os.makedirs(os.path.join(snap, 'asan'), exist_ok=True)
        _copy_tree(os.path.join(snap, 'flipjump'), out_dir)
        out = os.path.join(out_dir, 'interpreter', '_fjcore.abi3.so')
        cmd = ['clang', '-O1', '-g', '-fsanitize=address,undefined', '-fno-sanitize-recover=undefined',
               '-fno-omit-frame-pointer', '-fPIC', '-shared', '-DPy_LIMITED_API=0x030A0000', '-I' + inc, src, '-o', out]
    else:
        out = os.path.join(snap, 'flipjump', 'interpreter', '_fjcore.abi3.so')
        cmd = ['gcc', '-O2', '-fPIC', '-shared', '-DPy_LIMITED_API=0x030A0000', '-I' + inc, src, '-o', out]
    r = subprocess.run(cmd, capture_output=True, text=True)
    if r.returncode != 0:
        raise HarnessError('native build failed: %s\n%s' % (' '.join(cmd), r.stderr[-4000:]))
    return out


def create_snapshot(asan=False):
    """Copy /repo/flipjump and build the engine. Returns the snapshot dir (registered for removal)."""
    root = _scratch_root()
    _sweep_old(root)
    snap = tempfile.mkdtemp(prefix='fjverif.%d.' % os.getpid(), dir=root)
    _created.append((os.getpid(), snap))
    if not os.path.isdir(os.path.join(REPO, 'flipjump')):
        raise HarnessError('no flipjump package under %s' % REPO)
    _copy_tree(os.path.join(REPO, 'flipjump'), os.path.join(snap, 'flipjump'))
    _build_native(snap, asan=False)
    if asan:
        _build_native(snap, asan=True)
    os.environ[ENV_SNAPSHOT] = snap
    return snap


def _cleanup():
    for pid, snap in _created:
        if pid == os.getpid():
            shutil.rmtree(snap, ignore_errors=True)


atexit.register(_cleanup)


def cleanup_now():
    _cleanup()


def asan_preload():
    r = subprocess.run(['clang', '-print-file-name=libclang_rt.asan-x86_64.so'], capture_output=True, text=True)
    return r.stdout.strip()


def activate(snap=None):
    """Put the snapshot first on sys.path and verify that it is what gets imported."""
    snap = snap or os.environ.get(ENV_SNAPSHOT)
    if not snap:
        raise HarnessError('no snapshot: call create_snapshot() first')
    if 'flipjump' in sys.modules:
        f = getattr(sys.modules['flipjump'], '__file__', '') or ''
        if not os.path.realpath(f).startswith(os.path.realpath(snap)):
            raise HarnessError('flipjump already imported from %s' % f)
    if snap not in sys.path[:1]:
        sys.path.insert(0, snap)
    os.environ.setdefault('PYTHONHASHSEED', '0')
    import flipjump  # noqa
    from flipjump.interpreter import fjm_run
    f = os.path.realpath(flipjump.__file__)
    if not f.startswith(os.path.realpath(snap)):
        raise HarnessError('flipjump imported from %s, not the snapshot %s' % (f, snap))
    core = fjm_run._fjcore
    if core is None:
        raise HarnessError('native engine did not load from the snapshot')
    cf = os.path.realpath(core.__file__)
    if not cf.startswith(os.path.realpath(snap)):
        raise HarnessError('_fjcore loaded from %s, not the snapshot' % cf)
    return snap


def child_env(snap=None, asan=False, extra=None):
    """Environment for subprocesses that must import the snapshot."""
    snap = snap or os.environ[ENV_SNAPSHOT]
    e = dict(os.environ)
    base = os.path.join(snap, 'asan') if asan else snap
    verif = os.path.dirname(os.path.dirname(os.path.abspath(__file__)))
    e['PYTHONPATH'] = os.pathsep.join([base, verif])
    e['PYTHONHASHSEED'] = '0'
    e[ENV_SNAPSHOT] = base
    e.pop('FLIPJUMP_NO_NATIVE', None)
    if asan:
        e['LD_PRELOAD'] = asan_preload()
        e['ASAN_OPTIONS'] = 'detect_leaks=0:allocator_may_return_null=1:abort_on_error=1:handle_abort=1'
        e['UBSAN_OPTIONS'] = 'print_stacktrace=1:halt_on_error=1'
    if extra:
        e.update(extra)
    return e
