"""Doc-comment formulas of the hex-namespace data macros (C04), transcribed from the '//   dst[:n] += src[:n]'-style
comment above each def in flipjump/stl/hex/*.fj.

A spec:  name, call template (variables a,b,c,d ; constants {C},{K} ; branch labels {L0},{L1},{L2} ; {n} {m} sizes),
         vars: {var: size-function(n, m)}, ns: sizes to test, f(env, n, m, C, K) -> updates
         (variables and the pseudo keys '_branch' (index of the taken label), '_addc' / '_subc' (documented carry left set)).
"""


def M(n):
    return (1 << (4 * n)) - 1


def sgn(v, n):
    return v - (1 << (4 * n)) if v >> (4 * n - 1) else v


def popcount(x):
    return bin(x).count('1')


def small_n(n):
    return ((n * 4).bit_length() + 3) // 4


SPECS = []


def spec(name, call, vars_, f, ns=(1, 2, 3, 5), consts=None, pre='', ms=(None,), alias=None, notes=''):
    SPECS.append({'name': name, 'call': call, 'vars': vars_, 'f': f, 'ns': ns, 'consts': consts or {}, 'pre': pre, 'ms': ms,
                  'alias': alias, 'notes': notes})


N = lambda n, m: n  # noqa
ONE = lambda n, m: 1  # noqa

# ---- memory
spec('hex.zero/1', 'hex.zero a', {'a': ONE}, lambda e, n, m, C, K: {'a': 0}, ns=(1,))
spec('hex.zero/n', 'hex.zero {n}, a', {'a': N}, lambda e, n, m, C, K: {'a': 0})
spec('hex.mov/1', 'hex.mov a, b', {'a': ONE, 'b': ONE}, lambda e, n, m, C, K: {'a': e['b']}, ns=(1,))
spec('hex.mov/n', 'hex.mov {n}, a, b', {'a': N, 'b': N}, lambda e, n, m, C, K: {'a': e['b']})
spec('hex.mov/n same address', 'hex.mov {n}, a, a', {'a': N}, lambda e, n, m, C, K: {}, ns=(1, 2, 4))
spec('hex.xor_by/1', 'hex.xor_by a, {C}', {'a': ONE}, lambda e, n, m, C, K: {'a': e['a'] ^ C}, ns=(1,), consts={'C': 'hex'})
spec('hex.xor_by/n', 'hex.xor_by {n}, a, {C}', {'a': N}, lambda e, n, m, C, K: {'a': e['a'] ^ (C & M(n))}, consts={'C': 'vec'})
spec('hex.set/1', 'hex.set a, {C}', {'a': ONE}, lambda e, n, m, C, K: {'a': C}, ns=(1,), consts={'C': 'hex'})
spec('hex.set/n', 'hex.set {n}, a, {C}', {'a': N}, lambda e, n, m, C, K: {'a': C & M(n)}, consts={'C': 'vec'})
spec('hex.swap/1', 'hex.swap a, b', {'a': ONE, 'b': ONE}, lambda e, n, m, C, K: {'a': e['b'], 'b': e['a']}, ns=(1,))
spec('hex.swap/n', 'hex.swap {n}, a, b', {'a': N, 'b': N}, lambda e, n, m, C, K: {'a': e['b'], 'b': e['a']})
# ---- logic
spec('hex.xor/1', 'hex.xor a, b', {'a': ONE, 'b': ONE}, lambda e, n, m, C, K: {'a': e['a'] ^ e['b']}, ns=(1,))
spec('hex.xor/n', 'hex.xor {n}, a, b', {'a': N, 'b': N}, lambda e, n, m, C, K: {'a': e['a'] ^ e['b']})
spec('hex.xor_zero/1', 'hex.xor_zero a, b', {'a': ONE, 'b': ONE}, lambda e, n, m, C, K: {'a': e['a'] ^ e['b'], 'b': 0}, ns=(1,))
spec('hex.xor_zero/n', 'hex.xor_zero {n}, a, b', {'a': N, 'b': N}, lambda e, n, m, C, K: {'a': e['a'] ^ e['b'], 'b': 0})
spec('hex.double_xor', 'hex.double_xor a, b, c', {'a': ONE, 'b': ONE, 'c': ONE}, lambda e, n, m, C, K: {'a': e['a'] ^ e['c'], 'b': e['b'] ^ e['c']}, ns=(1,))
spec('hex.not/1', 'hex.not a', {'a': ONE}, lambda e, n, m, C, K: {'a': 15 - e['a']}, ns=(1,))
spec('hex.not/n', 'hex.not {n}, a', {'a': N}, lambda e, n, m, C, K: {'a': M(n) - e['a']})
spec('hex.or/1', 'hex.or a, b', {'a': ONE, 'b': ONE}, lambda e, n, m, C, K: {'a': e['a'] | e['b']}, ns=(1,))
spec('hex.or/n', 'hex.or {n}, a, b', {'a': N, 'b': N}, lambda e, n, m, C, K: {'a': e['a'] | e['b']})
spec('hex.and/1', 'hex.and a, b', {'a': ONE, 'b': ONE}, lambda e, n, m, C, K: {'a': e['a'] & e['b']}, ns=(1,))
spec('hex.and/n', 'hex.and {n}, a, b', {'a': N, 'b': N}, lambda e, n, m, C, K: {'a': e['a'] & e['b']})
# ---- basic math
spec('hex.add_count_bits', 'hex.add_count_bits {n}, a, b', {'a': N, 'b': ONE}, lambda e, n, m, C, K: {'a': (e['a'] + popcount(e['b'])) & M(n)}, ns=(1, 2, 3))
spec('hex.count_bits', 'hex.count_bits {n}, d, a', {'d': lambda n, m: small_n(n), 'a': N},
     lambda e, n, m, C, K: {'d': popcount(e['a']) & M(small_n(n))}, ns=(1, 2, 3, 5))
spec('hex.inc1', 'hex.inc1 a, {L0}, {L1}', {'a': ONE}, lambda e, n, m, C, K: {'a': (e['a'] + 1) & 15, '_branch': 1 if e['a'] == 15 else 0}, ns=(1,))
spec('hex.inc', 'hex.inc {n}, a', {'a': N}, lambda e, n, m, C, K: {'a': (e['a'] + 1) & M(n)})
spec('hex.dec1', 'hex.dec1 a, {L0}, {L1}', {'a': ONE}, lambda e, n, m, C, K: {'a': (e['a'] - 1) & 15, '_branch': 1 if e['a'] == 0 else 0}, ns=(1,))
spec('hex.dec', 'hex.dec {n}, a', {'a': N}, lambda e, n, m, C, K: {'a': (e['a'] - 1) & M(n)})
spec('hex.neg', 'hex.neg {n}, a', {'a': N}, lambda e, n, m, C, K: {'a': (-e['a']) & M(n)})
spec('hex.abs', 'hex.abs {n}, a', {'a': N}, lambda e, n, m, C, K: {'a': abs(sgn(e['a'], n)) & M(n)})
spec('hex.sign_extend', 'hex.sign_extend {n}, {m}, a', {'a': N},
     lambda e, n, m, C, K: {'a': sgn(e['a'] & M(m), m) & M(n)}, ns=(2, 3, 5), ms=(1, 2))
# ---- add / sub
spec('hex.add/1 carry-in 0', 'hex.add a, b', {'a': ONE, 'b': ONE},
     lambda e, n, m, C, K: {'a': (e['a'] + e['b']) & 15, '_addc': (e['a'] + e['b']) >> 4}, ns=(1,))
spec('hex.add/1 carry-in 1', 'hex.add a, b', {'a': ONE, 'b': ONE},
     lambda e, n, m, C, K: {'a': (e['a'] + e['b'] + 1) & 15, '_addc': (e['a'] + e['b'] + 1) >> 4}, ns=(1,), pre='hex.add.set_carry')
spec('hex.add/1 not_carry', 'hex.add a, b', {'a': ONE, 'b': ONE},
     lambda e, n, m, C, K: {'a': (e['a'] + e['b'] + 1) & 15, '_addc': (e['a'] + e['b'] + 1) >> 4}, ns=(1,), pre='hex.add.not_carry')
spec('hex.add/n', 'hex.add {n}, a, b', {'a': N, 'b': N}, lambda e, n, m, C, K: {'a': (e['a'] + e['b']) & M(n)})
spec('hex.add/n after set_carry', 'hex.add {n}, a, b', {'a': N, 'b': N}, lambda e, n, m, C, K: {'a': (e['a'] + e['b']) & M(n)}, pre='hex.add.set_carry', ns=(1, 2))
spec('hex.add/n same', 'hex.add {n}, a, a', {'a': N}, lambda e, n, m, C, K: {'a': (2 * e['a']) & M(n)}, ns=(1, 2, 3))
spec('hex.sub/1 borrow-in 0', 'hex.sub a, b', {'a': ONE, 'b': ONE},
     lambda e, n, m, C, K: {'a': (e['a'] - e['b']) & 15, '_subc': 1 if e['a'] < e['b'] else 0}, ns=(1,))
spec('hex.sub/1 borrow-in 1', 'hex.sub a, b', {'a': ONE, 'b': ONE},
     lambda e, n, m, C, K: {'a': (e['a'] - e['b'] - 1) & 15, '_subc': 1 if e['a'] < e['b'] + 1 else 0}, ns=(1,), pre='hex.sub.set_carry')
spec('hex.sub/n', 'hex.sub {n}, a, b', {'a': N, 'b': N}, lambda e, n, m, C, K: {'a': (e['a'] - e['b']) & M(n)})
spec('hex.add_shifted', 'hex.add_shifted {n}, {m}, a, b, {K}', {'a': N, 'b': lambda n, m: m},
     lambda e, n, m, C, K: {'a': (e['a'] + (e['b'] << (4 * K))) & M(n)}, ns=(2, 3, 5), ms=(1, 2), consts={'K': 'shift'})
spec('hex.sub_shifted', 'hex.sub_shifted {n}, {m}, a, b, {K}', {'a': N, 'b': lambda n, m: m},
     lambda e, n, m, C, K: {'a': (e['a'] - (e['b'] << (4 * K))) & M(n)}, ns=(2, 3, 5), ms=(1, 2), consts={'K': 'shift'})
spec('hex.add_constant', 'hex.add_constant {n}, a, {C}', {'a': N}, lambda e, n, m, C, K: {'a': (e['a'] + C) & M(n)}, consts={'C': 'posconst'})
spec('hex.sub_constant', 'hex.sub_constant {n}, a, {C}', {'a': N}, lambda e, n, m, C, K: {'a': (e['a'] - C) & M(n)}, consts={'C': 'posconst'})
# ---- shifts
spec('hex.shl_bit', 'hex.shl_bit {n}, a', {'a': N}, lambda e, n, m, C, K: {'a': (e['a'] << 1) & M(n)})
spec('hex.shr_bit', 'hex.shr_bit {n}, a', {'a': N}, lambda e, n, m, C, K: {'a': e['a'] >> 1})
spec('hex.shl_hex/1', 'hex.shl_hex {n}, a', {'a': N}, lambda e, n, m, C, K: {'a': (e['a'] << 4) & M(n)})
spec('hex.shr_hex/1', 'hex.shr_hex {n}, a', {'a': N}, lambda e, n, m, C, K: {'a': e['a'] >> 4})
spec('hex.shl_hex/times', 'hex.shl_hex {n}, {K}, a', {'a': N}, lambda e, n, m, C, K: {'a': (e['a'] << (4 * K)) & M(n)}, consts={'K': 'times'})
spec('hex.shr_hex/times', 'hex.shr_hex {n}, {K}, a', {'a': N}, lambda e, n, m, C, K: {'a': e['a'] >> (4 * K)}, consts={'K': 'times'})
# ---- conditional jumps
spec('hex.if_flags', 'hex.if_flags a, {C}, {L0}, {L1}', {'a': ONE}, lambda e, n, m, C, K: {'_branch': (C >> e['a']) & 1}, ns=(1,), consts={'C': 'flags16'})
spec('hex.if/1', 'hex.if a, {L0}, {L1}', {'a': ONE}, lambda e, n, m, C, K: {'_branch': 0 if e['a'] == 0 else 1}, ns=(1,))
spec('hex.if0/1', 'hex.if0 a, {L0}', {'a': ONE}, lambda e, n, m, C, K: {'_branch': 0 if e['a'] == 0 else 'fall'}, ns=(1,))
spec('hex.if1/1', 'hex.if1 a, {L1}', {'a': ONE}, lambda e, n, m, C, K: {'_branch': 1 if e['a'] != 0 else 'fall'}, ns=(1,))
spec('hex.if/n', 'hex.if {n}, a, {L0}, {L1}', {'a': N}, lambda e, n, m, C, K: {'_branch': 0 if e['a'] == 0 else 1})
spec('hex.if0/n', 'hex.if0 {n}, a, {L0}', {'a': N}, lambda e, n, m, C, K: {'_branch': 0 if e['a'] == 0 else 'fall'})
spec('hex.if1/n', 'hex.if1 {n}, a, {L1}', {'a': N}, lambda e, n, m, C, K: {'_branch': 1 if e['a'] != 0 else 'fall'})
spec('hex.sign', 'hex.sign {n}, a, {L0}, {L1}', {'a': N}, lambda e, n, m, C, K: {'_branch': 0 if sgn(e['a'], n) < 0 else 1})
spec('hex.cmp/1', 'hex.cmp a, b, {L0}, {L1}, {L2}', {'a': ONE, 'b': ONE},
     lambda e, n, m, C, K: {'_branch': 0 if e['a'] < e['b'] else 1 if e['a'] == e['b'] else 2}, ns=(1,))
spec('hex.cmp/n', 'hex.cmp {n}, a, b, {L0}, {L1}, {L2}', {'a': N, 'b': N},
     lambda e, n, m, C, K: {'_branch': 0 if e['a'] < e['b'] else 1 if e['a'] == e['b'] else 2})
spec('hex.scmp', 'hex.scmp {n}, a, b, {L0}, {L1}, {L2}', {'a': N, 'b': N},
     lambda e, n, m, C, K: {'_branch': 0 if sgn(e['a'], n) < sgn(e['b'], n) else 1 if e['a'] == e['b'] else 2})
spec('hex.min', 'hex.min {n}, d, a, b', {'d': N, 'a': N, 'b': N}, lambda e, n, m, C, K: {'d': min(e['a'], e['b'])})
spec('hex.max', 'hex.max {n}, d, a, b', {'d': N, 'a': N, 'b': N}, lambda e, n, m, C, K: {'d': max(e['a'], e['b'])})
# ---- mul / div
spec('hex.add_mul/n', 'hex.add_mul {n}, d, a, b', {'d': N, 'a': N, 'b': ONE}, lambda e, n, m, C, K: {'d': (e['d'] + e['a'] * e['b']) & M(n)}, ns=(1, 2, 3))
spec('hex.mul10', 'hex.mul10 {n}, a', {'a': N}, lambda e, n, m, C, K: {'a': (e['a'] * 10) & M(n)})
spec('hex.mul', 'hex.mul {n}, d, a, b', {'d': N, 'a': N, 'b': N}, lambda e, n, m, C, K: {'d': (e['a'] * e['b']) & M(n)}, ns=(1, 2, 3))


def _div(e, n, m, C, K):
    if e['b'] == 0:
        return {'_branch': 0}
    return {'q': e['a'] // e['b'], 'r': e['a'] % e['b'], '_branch': 'fall'}


spec('hex.div', 'hex.div {n}, {m}, q, r, a, b, {L0}', {'q': N, 'r': lambda n, m: m, 'a': N, 'b': lambda n, m: m}, _div, ns=(1, 2, 3), ms=(1, 2))


def _idiv(opt):
    def f(e, n, m, C, K):
        a, b = sgn(e['a'], n), sgn(e['b'], m)
        if b == 0:
            return {'_branch': 0}
        # truncating division, then the remainder's sign is fixed according to rem_opt; always a == q*b + r
        q = abs(a) // abs(b)
        if (a < 0) != (b < 0):
            q = -q
        r = a - q * b
        if opt == 0 and r != 0 and ((r < 0) != (b < 0)):
            r += b
            q -= 1
        elif opt == 2 and r < 0:
            if b > 0:
                r += b
                q -= 1
            else:
                r -= b
                q += 1
        return {'q': q & M(n), 'r': r & M(m), '_branch': 'fall'}
    return f


for _opt in (0, 1, 2):
    spec('hex.idiv rem_opt=%d' % _opt, 'hex.idiv {n}, {m}, q, r, a, b, {L0}, %d' % _opt,
         {'q': N, 'r': lambda n, m: m, 'a': N, 'b': lambda n, m: m}, _idiv(_opt), ns=(1, 2, 3), ms=(1, 2))
