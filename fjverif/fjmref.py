"""Reference .fjm codec written from the struct comment in fjm_consts.py (DESIGN 3.3).

struct { u16 magic 'FJ'; u16 w; u64 version; u64 segment_num; {versions>0: u64 flags; u32 reserved=0;}
         segment{u64 start; u64 length; u64 data_start; u64 data_length;}[segment_num]; u8 data[]; }
versions 2,3: every odd (jump) word of a segment's data is stored relative to its own bit address;
version 3: the data pool is raw-LZMA2 compressed.
"""
import lzma
import struct

MAGIC = ord('F') + (ord('J') << 8)
WIDTHS = (8, 16, 32, 64)
FMT = {8: 'B', 16: 'H', 32: 'L', 64: 'Q'}


class Reject:
    def __init__(self, grade, reason):
        self.grade = grade  # 'format' | 'geometry'
        self.reason = reason

    def __repr__(self):
        return 'Reject(%s: %s)' % (self.grade, self.reason)


class Image:
    def __init__(self, w, version, flags, segments, pool):
        self.w = w
        self.version = version
        self.flags = flags
        self.segments = segments  # [(start, length, data_start, data_length)]
        self.pool = pool  # absolute words as stored (before un-relativising)

    def words(self, limit=200000):
        """dict word_address -> value for data words (zeros of tails are implicit). later segments win."""
        out = {}
        mask = (1 << self.w) - 1
        n = 0
        for s, l, ds, dl in self.segments:
            for i in range(dl):
                v = self.pool[ds + i]
                if self.version >= 2 and i % 2 == 1:
                    v = (v + (s + i) * self.w) & mask
                out[s + i] = v
                n += 1
                if n > limit:
                    return None
        return out

    def seg_ranges(self):
        return [(s, s + l) for s, l, _, _ in self.segments]

    def value_at(self, wa):
        """reference value of in-segment word wa (None if in no segment). Uses the last segment whose data covers
        wa, else 0 if some segment covers wa."""
        mask = (1 << self.w) - 1
        covered = False
        val = None
        for s, l, ds, dl in self.segments:
            if s <= wa < s + l:
                covered = True
            i = wa - s
            if 0 <= i < dl:
                v = self.pool[ds + i]
                if self.version >= 2 and i % 2 == 1:
                    v = (v + (s + i) * self.w) & mask
                val = v
        if val is not None:
            return val
        return 0 if covered else None


def lzma_filters(w, preset):
    return [{"id": lzma.FILTER_LZMA2, "preset": preset, "nice_len": 2 * w}]


def encode(w, version, segments, pool, flags=0, reserved=0, magic=MAGIC, preset=0, relativise=True,
           raw_payload=None, segment_num=None):
    """segments: [(start, length, data_start, data_length)], pool: absolute word values.
    For versions 2/3 the jump words are converted to relative form here (relativise=True)."""
    mask = (1 << w) - 1
    pool = list(pool)
    if version >= 2 and relativise:
        for s, l, ds, dl in segments:
            for i in range(1, dl, 2):
                if 0 <= ds + i < len(pool):
                    pool[ds + i] = (pool[ds + i] - (s + i) * w) & mask
    out = struct.pack('<HHQQ', magic, w, version, len(segments) if segment_num is None else segment_num)
    if version != 0:
        out += struct.pack('<QL', flags, reserved)
    for seg in segments:
        out += struct.pack('<QQQQ', *seg)
    if raw_payload is not None:
        return out + raw_payload
    payload = struct.pack('<%d%s' % (len(pool), FMT[w]), *pool)
    if version == 3:
        payload = lzma.compress(payload, format=lzma.FORMAT_RAW, filters=lzma_filters(w, preset))
    return out + payload


def decode(b, max_pool_bytes=1 << 26):
    """-> Image | Reject"""
    if len(b) < 20:
        return Reject('format', 'short header')
    magic, w, version, nseg = struct.unpack('<HHQQ', b[:20])
    if magic != MAGIC:
        return Reject('format', 'bad magic')
    if version not in (0, 1, 2, 3):
        return Reject('format', 'bad version')
    if w not in WIDTHS:
        return Reject('format', 'bad width')
    pos = 20
    flags = 0
    if version != 0:
        if len(b) < pos + 12:
            return Reject('format', 'short header extension')
        flags, reserved = struct.unpack('<QL', b[pos:pos + 12])
        pos += 12
        if reserved != 0:
            return Reject('format', 'reserved != 0')
    if nseg > (len(b) - pos) // 32:
        return Reject('format', 'segment table exceeds the file')
    segs = []
    for i in range(nseg):
        segs.append(struct.unpack('<QQQQ', b[pos:pos + 32]))
        pos += 32
    payload = b[pos:]
    if version == 3:
        # the documented payload is "raw LZMA2"; what counts as such is what python's lzma.decompress accepts: one or
        # more concatenated streams, and bytes after a complete stream that do not start another one are ignored
        data, parts, total = payload, [], 0
        while True:
            dec = lzma.LZMADecompressor(format=lzma.FORMAT_RAW, filters=[{"id": lzma.FILTER_LZMA2}])
            try:
                res = dec.decompress(data, max_length=max_pool_bytes - total)
            except lzma.LZMAError:
                if parts:
                    break
                return Reject('format', 'lzma damaged')
            parts.append(res)
            total += len(res)
            if not dec.eof:
                if total >= max_pool_bytes:
                    return Reject('resource', 'decompressed pool above the reference cap')
                return Reject('format', 'lzma stream truncated')
            data = dec.unused_data
            if not data:
                break
        payload = b''.join(parts)
    wb = w // 8
    if len(payload) % wb:
        return Reject('format', 'pool is not a whole number of words')
    n = len(payload) // wb
    pool = list(struct.unpack('<%d%s' % (n, FMT[w]), payload))
    geometry = None
    for s, l, ds, dl in segs:
        if dl % 2:
            return Reject('format', 'odd data length')
        if ds + dl > n:
            return Reject('format', 'data range outside the pool')
        if dl > l:
            geometry = geometry or 'data longer than segment'
        if s + l > (1 << 64):
            geometry = geometry or 'segment past 2^64'
    img = Image(w, version, flags, segs, pool)
    img.geometry_issue = geometry
    return img
