"""Driving the real engines through the public API (fjm_run.run) with a recording device."""
import contextlib
import io
import os
import shutil
import tempfile
from pathlib import Path

_tmp = None
_tmp_pid = None


def tmpdir():
    global _tmp, _tmp_pid
    if _tmp_pid != os.getpid():
        _tmp = None
        _tmp_pid = os.getpid()
    if _tmp is None or not os.path.isdir(_tmp):
        base = os.environ.get('FJVERIF_SNAPSHOT') or '/var/tmp'
        _tmp = tempfile.mkdtemp(prefix='w%d.' % os.getpid(), dir=base)
    return Path(_tmp)


def cleanup_tmp():
    global _tmp
    if _tmp and _tmp_pid == os.getpid():
        shutil.rmtree(_tmp, ignore_errors=True)
        _tmp = None


def write_image(path, w, segments, version, lzma_preset=None):
    from flipjump.fjm import fjm_writer
    from flipjump.fjm.fjm_consts import FJMVersion
    kw = {}
    if lzma_preset is not None:
        kw['lzma_preset'] = lzma_preset
    elif version == 3:
        kw['lzma_preset'] = 0
    wr = fjm_writer.Writer(path, w, FJMVersion(version), **kw)
    for s, l, d in segments:
        ds = wr.add_data(list(d))
        wr.add_segment(s, l, ds, len(d))
    wr.write_to_file()


def make_rec_device(input_bits, script=None):
    """A recording IODevice.  script: optional object with on_call(dev, k, kind, bit) invoked at
    every IO call (after the call is logged) - it may raise or touch dev.mem."""
    from flipjump.interpreter.io_devices.IODevice import IODevice
    from flipjump.utils.exceptions import IOReadOnEOF

    class RecIO(IODevice):
        def __init__(self):
            self.inp = list(input_bits)
            self.pos = 0
            self.out = []
            self.calls = []
            self.mem = None
            self.k = 0
            self.attach_count = 0

        def attach_memory(self, m):
            self.mem = m
            self.attach_count += 1
            if script is not None and hasattr(script, 'on_attach'):
                script.on_attach(self)

        def read_bit(self):
            self.k += 1
            if script is not None:
                r = script.on_call(self, self.k, 'r', None)
                if r is not None:
                    self.calls.append('r%d' % int(r))
                    return bool(r)
            if self.pos >= len(self.inp):
                self.calls.append('E')
                raise IOReadOnEOF('eof')
            b = self.inp[self.pos]
            self.pos += 1
            self.calls.append('r%d' % b)
            return bool(b)

        def write_bit(self, bit):
            self.k += 1
            self.calls.append('w%d' % int(bit))
            if script is not None:
                script.on_call(self, self.k, 'w', int(bit))
            self.out.append(int(bit))

        def get_output(self, *, allow_incomplete_output=False):
            return b''

    return RecIO()


ENGINES = ('featured', 'fast', 'native')


@contextlib.contextmanager
def engine_env(engine, knobs=None):
    knobs = knobs or {}
    saved = {k: os.environ.get(k) for k in
             ('FLIPJUMP_NO_NATIVE', 'FLIPJUMP_NO_FLAT', 'FLIPJUMP_MEASURE_SPECULATION', 'FLIPJUMP_FLAT_MAX_WORDS',
              'FLIPJUMP_TEST_FLAT_ALLOC_FAIL')}
    for k in saved:
        os.environ.pop(k, None)
    if engine == 'fast':
        os.environ['FLIPJUMP_NO_NATIVE'] = '1'
    if knobs.get('no_flat'):
        os.environ['FLIPJUMP_NO_FLAT'] = '1'
    if knobs.get('measure'):
        os.environ['FLIPJUMP_MEASURE_SPECULATION'] = '1'
    if knobs.get('env_flat') is not None:
        os.environ['FLIPJUMP_FLAT_MAX_WORDS'] = str(knobs['env_flat'])
    try:
        yield
    finally:
        for k, v in saved.items():
            if v is None:
                os.environ.pop(k, None)
            else:
                os.environ[k] = v


class Outcome:
    """normalised result of one engine run"""

    def __init__(self):
        self.exc = None
        self.cause = None
        self.ops = None
        self.fault = None
        self.last_ops = None
        self.storage = None
        self.dev = None
        self.stats = None

    def summary(self):
        return {'exc': repr(self.exc) if self.exc is not None else None, 'cause': self.cause, 'ops': self.ops,
                'fault': self.fault, 'calls': self.dev.calls[:40] if self.dev else None,
                'last_ops': self.last_ops, 'storage': self.storage}


class EngineTimeout(BaseException):
    """the engine did not finish a run whose reference finished within the op budget (hang guard)"""


ENGINE_TIMEOUT_S = float(os.environ.get('FJVERIF_ENGINE_TIMEOUT', '60'))


@contextlib.contextmanager
def hang_guard(seconds=None):
    import signal
    import threading
    if threading.current_thread() is not threading.main_thread():
        yield
        return

    def handler(signum, frame):
        raise EngineTimeout('engine still running after %ss' % (seconds or ENGINE_TIMEOUT_S))

    old = signal.signal(signal.SIGALRM, handler)
    signal.setitimer(signal.ITIMER_REAL, seconds or ENGINE_TIMEOUT_S)
    try:
        yield
    finally:
        signal.setitimer(signal.ITIMER_REAL, 0)
        signal.signal(signal.SIGALRM, old)


def run_engine(path, engine, dev, *, last_len=None, flat=None, knobs=None, breakpoint_handler=None, timeout=None):
    from flipjump.interpreter import fjm_run
    o = Outcome()
    o.dev = dev
    with engine_env(engine, knobs):
        buf = io.StringIO()
        try:
            with contextlib.redirect_stdout(buf), hang_guard(timeout):
                ts = fjm_run.run(Path(path), io_device=dev, profile=(engine == 'featured'),
                                 last_ops_debugging_list_length=last_len, flat_max_words=flat,
                                 breakpoint_handler=breakpoint_handler)
        except BaseException as e:  # noqa - reported to the oracle, which decides
            if isinstance(e, (SystemExit, GeneratorExit, MemoryError)):
                raise
            o.exc = e
            return o
    o.stats = ts
    o.cause = ts.termination_cause.name
    o.ops = ts.op_counter
    o.fault = ts.memory_error_address
    o.last_ops = list(ts.last_ops_addresses) if ts.last_ops_addresses is not None else None
    o.storage = ts.storage_mode
    return o
