"""Exploration only (not the framework): random images vs a spec interpreter, 3 engines."""
import os, sys, random, tempfile, io, contextlib
from pathlib import Path

sys.path.insert(0, __import__('os').environ.get('FJ_SNAPSHOT', '/tmp/exp/plain'))
from flipjump.fjm import fjm_writer, fjm_reader
from flipjump.fjm.fjm_consts import FJMVersion
from flipjump.interpreter import fjm_run
from flipjump.interpreter.io_devices.IODevice import IODevice
from flipjump.utils.exceptions import IOReadOnEOF
from flipjump.utils.classes import TerminationCause


class RecIO(IODevice):
    def __init__(self, inp_bits):
        self.inp = list(inp_bits)
        self.out = []
        self.calls = []
        self.mem = None

    def attach_memory(self, m):
        self.mem = m

    def read_bit(self):
        if not self.inp:
            self.calls.append('E')
            raise IOReadOnEOF('eof')
        b = self.inp.pop(0)
        self.calls.append('r%d' % b)
        return bool(b)

    def write_bit(self, bit):
        self.calls.append('w%d' % int(bit))
        self.out.append(int(bit))

    def get_output(self, *, allow_incomplete_output=False):
        return b''


def spec_run(w, segments, inp_bits, max_ops=20000):
    """segments: list of (start, length, data)"""
    ww = w.bit_length() - 1
    mask = (1 << w) - 1
    mem = {}
    valid = set()
    for s, l, d in segments:
        for i in range(l):
            valid.add(s + i)
            mem[s + i] = d[i] if i < len(d) else 0
    inp = list(inp_bits)
    out = []
    calls = []
    ip = 0
    ops = 0
    dw = 2 * w
    in_addr = 3 * w + ww + 1
    last = []

    class Fault(Exception):
        pass

    def rw(wa):
        if wa not in valid:
            raise Fault(wa << ww)
        return mem[wa]

    def getword(ba):
        wa, off = ba >> ww, ba & (w - 1)
        if off == 0:
            return rw(wa)
        if wa == mask:
            raise Fault(ba)
        lo = rw(wa)
        hi = rw(wa + 1)
        return ((lo >> off) | (hi << (w - off))) & mask

    try:
        while True:
            if ops >= max_ops:
                return ('TIMEOUT', ops, None, out, calls, mem, last)
            last.append(ip)
            f = getword(ip)
            if f in (dw, dw + 1):
                out.append(f - dw)
                calls.append('w%d' % (f - dw))
            if ip <= in_addr < ip + dw:
                if not inp:
                    calls.append('E')
                    return ('EOF', ops, None, out, calls, mem, last)
                b = inp.pop(0)
                calls.append('r%d' % b)
                v = rw(in_addr >> ww)
                bit = 1 << (in_addr & (w - 1))
                mem[in_addr >> ww] = (v | bit) if b else (v & ~bit)
            v = rw(f >> ww)
            mem[f >> ww] = v ^ (1 << (f & (w - 1)))
            j = getword(ip + w)
            ops += 1
            if j == ip and not (ip <= f < ip + dw):
                return ('Looping', ops, None, out, calls, mem, last)
            if j < dw:
                return ('NullIP', ops, None, out, calls, mem, last)
            ip = j
    except Fault as e:
        return ('RuntimeMemoryError', ops, e.args[0], out, calls, mem, last)


def gen_image(rng, w):
    ww = w.bit_length() - 1
    mask = (1 << w) - 1
    total_words = min(1 << (w - ww), 1 << 30)
    nseg = rng.choice([1, 1, 2, 3])
    segs = []
    # first segment at 0
    used = []
    l0 = 2 * rng.randint(1, 8)
    starts = [(0, l0)]
    for _ in range(nseg - 1):
        for _try in range(10):
            if w == 8:
                s = 2 * rng.randint(0, 15)
                l = 2 * rng.randint(1, 4)
            else:
                s = 2 * rng.randint(0, 40)
                l = 2 * rng.randint(1, 6)
            if s + l > total_words:
                continue
            if all(s + l <= a or a + b <= s for a, b in starts):
                starts.append((s, l))
                break
    allwords = [a + i for a, b in starts for i in range(b)]

    def interesting_word():
        r = rng.random()
        if r < 0.35:
            # aligned op address inside some segment
            a, b = rng.choice(starts)
            return ((a + 2 * rng.randrange(b // 2)) << ww) & mask
        if r < 0.55:
            wa = rng.choice(allwords)
            return ((wa << ww) + rng.randrange(w)) & mask
        if r < 0.65:
            return rng.choice([2 * w, 2 * w + 1, 0, 1, 3 * w + ww + 1, w, 2 * w - 1])
        if r < 0.8:
            return rng.randrange(0, min(mask, 64 * w))
        return rng.randrange(0, mask + 1)

    for a, b in starts:
        dl = rng.choice([b, b, 2 * rng.randint(0, b // 2)])
        data = [interesting_word() for _ in range(dl)]
        segs.append((a, b, data))
    return segs


def write_image(path, w, segs, version):
    wr = fjm_writer.Writer(path, w, FJMVersion(version))
    for s, l, d in segs:
        ds = wr.add_data(list(d))
        wr.add_segment(s, l, ds, len(d))
    wr.write_to_file()


def run_engine(path, engine, inp_bits, last_len=None, flat=None):
    dev = RecIO(inp_bits)
    env = os.environ
    if engine == 'fast':
        env['FLIPJUMP_NO_NATIVE'] = '1'
    else:
        env.pop('FLIPJUMP_NO_NATIVE', None)
    try:
        with contextlib.redirect_stdout(io.StringIO()):
            ts = fjm_run.run(path, io_device=dev, profile=(engine == 'featured'),
                             last_ops_debugging_list_length=last_len, flat_max_words=flat)
    finally:
        env.pop('FLIPJUMP_NO_NATIVE', None)
    mem = {}
    if dev.mem is not None:
        pass
    return (ts.termination_cause.name, ts.op_counter, ts.memory_error_address, dev.out, dev.calls,
            list(ts.last_ops_addresses) if ts.last_ops_addresses is not None else None, dev)


def main():
    seed = int(sys.argv[1]) if len(sys.argv) > 1 else 1
    n = int(sys.argv[2]) if len(sys.argv) > 2 else 2000
    rng = random.Random(seed)
    d = tempfile.mkdtemp(prefix='fjexp')
    path = Path(d) / 'x.fjm'
    stats = {}
    bad = 0
    for it in range(n):
        w = rng.choice([8, 8, 16, 32, 64])
        segs = gen_image(rng, w)
        inp = [rng.randint(0, 1) for _ in range(rng.choice([0, 3, 20]))]
        ref = spec_run(w, segs, inp, max_ops=3000)
        if ref[0] == 'TIMEOUT':
            stats['TIMEOUT'] = stats.get('TIMEOUT', 0) + 1
            continue
        stats[ref[0]] = stats.get(ref[0], 0) + 1
        stats['ops>3'] = stats.get('ops>3', 0) + (ref[1] > 3)
        write_image(path, w, segs, rng.choice([0, 1, 2, 3]))
        for eng in ('featured', 'fast', 'native'):
            ll = rng.choice([None, 1, 3, 10])
            try:
                got = run_engine(path, eng, inp, last_len=ll)
            except Exception as e:
                print('EXC', eng, w, segs, inp, repr(e))
                bad += 1
                continue
            exp = (ref[0], ref[1], ref[2], ref[3], ref[4])
            if got[:5] != exp:
                bad += 1
                print('DIFF', eng, 'w=', w, 'segs=', segs, 'inp=', inp)
                print('   exp', exp[:3], exp[3][:10], exp[4][:10])
                print('   got', got[:3], got[3][:10], got[4][:10])
            if ll is not None and got[5] != ref[6][-ll:]:
                bad += 1
                print('LASTOPS', eng, w, segs, inp, ll, got[5], ref[6][-ll:])
            if bad > 15:
                break
        if bad > 15:
            break
    print(stats, 'bad', bad)


if __name__ == '__main__':
    main()
