import sys, os, time
sys.path.insert(0, os.path.dirname(os.path.abspath(__file__)))
from minibench import Bench
for w in (32, 64):
    NC = 12
    b = Bench(f'''stl.startup_and_init_all 20
hex.read_byte v1, p1
hex.write_byte p2, src
hex.xor_byte_to_ptr p1, src2
hex.read_byte v2, p2
hex.ptr_flip_dbit p1
hex.ptr_inc p1
hex.ptr_dec p2
hex.push_byte src
hex.push_hex src2
hex.pop_hex o1
hex.pop_byte o2
stl.loop
p1: hex.vec w/4
p2: hex.vec w/4
src: hex.vec 2, 0xA7
src2: hex.vec 2, 0x3C
v1: hex.vec 2, 0x11
v2: hex.vec 2, 0x22
o1: hex.vec 2, 0
o2: hex.vec 2, 0
pad 16
buf: rep({NC}, i) stl.fj 0, 0
''', w=w)
    dw = 2 * w
    buf = b.labels['buf']; sp0 = None
    bad = 0; t = time.time(); runs = 0
    for c1 in range(NC):
        for c2 in range(NC):
            m = b.fresh()
            init = [(17 * i + 5 * c1 + 3) & 0xff for i in range(NC)]
            for i in range(NC): b.set(m, buf + i * dw, 1, init[i], 8)
            b.set(m, 'p1', w // 4, buf + c1 * dw); b.set(m, 'p2', w // 4, buf + c2 * dw)
            sp_before = b.get(m, 'hex.pointers.sp', w // 4)
            cause, ops, out, _, _ = b.run(m); runs += 1
            mem = list(init)
            v1 = mem[c1]; mem[c2] = 0xA7; mem[c1] ^= 0x3C; v2 = mem[c2]; mem[c1] ^= 1
            exp = dict(v1=v1, v2=v2, p1=buf + (c1 + 1) * dw, p2=buf + (c2 - 1) * dw, o1=0xC, o2=0xA7)
            got = dict(v1=b.get(m, 'v1', 2), v2=b.get(m, 'v2', 2), p1=b.get(m, 'p1', w // 4), p2=b.get(m, 'p2', w // 4),
                       o1=b.get(m, 'o1', 2), o2=b.get(m, 'o2', 2))
            gmem = [b.get(m, buf + i * dw, 1, 8) for i in range(NC)]
            if cause != 0 or got != exp or gmem != mem or b.get(m, 'hex.pointers.sp', w // 4) != sp_before or b.get(m, 'src', 2) != 0xA7:
                bad += 1
                if bad < 4: print('  w', w, c1, c2, cause, got, exp, gmem, mem)
    print('C08 w', w, 'pairs', runs, 'bad', bad, 'ops/run', ops, round(time.time() - t, 2), 's')
