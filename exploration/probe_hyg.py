import sys, tempfile, io, contextlib
sys.path.insert(0,__import__('os').environ.get('FJ_SNAPSHOT', '/tmp/exp/plain'))
from pathlib import Path
import flipjump
from flipjump.fjm.fjm_consts import FJMVersion
from flipjump.fjm.fjm_reader import Reader
from flipjump.utils.exceptions import *
d=Path(tempfile.mkdtemp())
def img(src, w=16):
    f=d/'a.fj'; f.write_text(src); out=d/'a.fjm'
    try:
        with contextlib.redirect_stdout(io.StringIO()):
            flipjump.assemble([f], out, memory_width=w, use_stl=False, fjm_version=FJMVersion(0), print_time=False, warning_as_errors=False)
    except FlipJumpException as e:
        return 'ERR '+type(e).__name__+' '+str(e)[:150].replace('\n',' | ')
    r=Reader(out)
    return [hex(r.memory[k]) for k in sorted(r.memory)]
def cmp(name, a, b):
    ia, ib = img(a), img(b)
    print(name, 'SAME' if ia==ib else 'DIFF', ia if ia!=ib else '', ib if ia!=ib else '')
# 1. $ as arg
cmp('dollar arg', 'def m x {\n;x\n;x\n}\nm $', ';$\n;$')
# 2. caller label named like callee param
cmp('label vs param', 'def m x {\n;x\n}\nx:\nm 5\n;x', 'x:\n;5\n;x')
# 3. arg expression referencing caller param with same name as callee param
cmp('nested same param', 'def inner x {\n;x\n}\ndef outer x {\ninner x+1\n;x\n}\nouter 7', ';8\n;7')
# 4. callee local label same name as caller's arg label
cmp('local vs arg label', 'def m x @ a {\na:\n;x\n;a\n}\na:\nm a\n', 'a:\n;a\n;0')
# 5. ns param alias
cmp('ns alias', 'ns q {\nx:\n;\ndef m x {\n;.x\n;x\n}\n}\nq.m 9', ';\n;9\n;9')
cmp('ns alias2 global', 'ns q {\ndef m y < .x {\n;.x\n;y\n}\nx:\n;\n}\nq.m 9', ';0x20\n;9\n;')
# 6. caller passes global label q.x to macro in ns q having param x
cmp('pass q.x to param x', 'ns q {\ndef m x {\n;x\n}\ndef n y {\n.m y\n}\nx:\n;\n}\nq.n q.x', ';0x20\n;')
cmp('pass q.x via two levels', 'ns q {\ndef m x, z {\n;z\n}\ndef n y {\n.m 1, y\n}\nx:\n;\n}\nq.n q.x', ';0x20\n;')
# 7. rep iterator vs caller label named i
cmp('rep iter vs label', 'def m a {\n;a\n}\ni:\nrep(2, i) m i\n;i', 'i:\n;0\n;1\n;i')
cmp('rep iter shadows param', 'def m a {\n;a\n}\ndef o i {\nrep(2, i) m i\n;i\n}\no 9', ';0\n;1\n;9')
cmp('rep arg uses param named like inner iter', 'def m a {\n;a\n}\ndef p j {\nrep(2, i) m j+i\n}\ndef o i {\np i\n}\no 9', ';9\n;10')
cmp('nested rep same iter', 'def m a {\n;a\n}\ndef p k {\nrep(2, i) m k*10+i\n}\nrep(2, i) p i', ';0\n;1\n;10\n;11')
cmp('rep count uses param', 'def m a {\n;a\n}\ndef o n {\nrep(n, i) m i\n}\no 3', ';0\n;1\n;2')
cmp('rep 0', 'def m a {\n;a\n}\nrep(0, i) m i\n;', ';')
# 8. label passed as param & declared inside (output label)
cmp('label param decl', 'def m l {\nl:\n;l\n}\nm foo\n;foo', 'foo:\n;foo\n;foo')
# 9. extern/global
cmp('extern global', 'def m > e {\ne:\n;\n}\ndef u < e {\n;e\n}\nu\nm', ';0x20\n;')
# 10. overload by arity
cmp('overload', 'def m {\n;1\n}\ndef m a {\n;a\n}\nm\nm 2', ';1\n;2')
# 11. relative ns names
cmp('dots', 'ns a {\nns b {\ndef m {\n;..c.k\n}\n}\nns c {\nk = 5\n}\n}\na.b.m', ';5')
cmp('const in ns', 'ns a {\nk = 5\ndef m {\n;.k\n}\n}\na.m', ';5')
cmp('const later', 'def m {\n;k\n}\nk = 5\nm', ';5')
