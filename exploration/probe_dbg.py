import sys, tempfile, io, contextlib, builtins
sys.path.insert(0,__import__('os').environ.get('FJ_SNAPSHOT', '/tmp/exp/plain')); sys.path.insert(0, __import__('os').path.dirname(__import__('os').path.abspath(__file__)))
from pathlib import Path
from explore_c01 import write_image, RecIO
from flipjump.interpreter import fjm_run
from flipjump.interpreter.debugging.breakpoints import BreakpointHandler
d=Path(tempfile.mkdtemp()); p=d/'a.fjm'
w=16
segs=[(0,4,[0, 3*w, 0, 2*w+1])]
write_image(p,w,segs,1)
dev=RecIO([])
ts=fjm_run.run(p, io_device=dev, profile=True)
print('plain   ', ts.termination_cause.name, ts.op_counter, ts.memory_error_address, dev.calls)
answers=iter(['c'])
builtins.input=lambda prompt='': next(answers)
dev=RecIO([])
bh=BreakpointHandler({3*w: None}, {}, {})
buf=io.StringIO()
with contextlib.redirect_stdout(buf):
    ts=fjm_run.run(p, io_device=dev, breakpoint_handler=bh)
print('debugged', ts.termination_cause.name, ts.op_counter, ts.memory_error_address, dev.calls)
