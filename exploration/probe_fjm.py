import sys, tempfile, struct
sys.path.insert(0,__import__('os').environ.get('FJ_SNAPSHOT', '/tmp/exp/plain'))
from pathlib import Path
from flipjump.fjm import fjm_writer, fjm_reader
from flipjump.fjm.fjm_consts import FJMVersion
from flipjump.utils.exceptions import *
d=Path(tempfile.mkdtemp()); p=d/'a.fjm'
def tryw(desc, w, v, calls):
    try:
        wr=fjm_writer.Writer(p,w,FJMVersion(v))
        for c in calls:
            getattr(wr,c[0])(*c[1:])
        wr.write_to_file()
    except Exception as e:
        print(desc,'-> WRITE', type(e).__name__, str(e)[:80]); return
    try:
        r=fjm_reader.Reader(p)
        print(desc,'-> OK', sorted(r.memory.items())[:8], r.memory_segments, r.zeros_boundaries)
    except Exception as e:
        print(desc,'-> READ', type(e).__name__, str(e)[:100])
for v in (0,1,2,3):
    tryw(f'v{v} odd data_length', 8, v, [('add_data',[1,2,3]),('add_segment',0,4,0,3)])
    tryw(f'v{v} data range beyond pool', 8, v, [('add_data',[1,2]),('add_segment',0,4,0,4)])
    tryw(f'v{v} word too big', 8, v, [('add_data',[1,256]),('add_segment',0,2,0,2)])
    tryw(f'v{v} negative word', 8, v, [('add_data',[1,-1]),('add_segment',0,2,0,2)])
    tryw(f'v{v} seg start 2^64', 8, v, [('add_data',[1,2]),('add_segment',1<<64,2,0,2)])
    tryw(f'v{v} negative start', 8, v, [('add_data',[1,2]),('add_segment',-2,2,0,2)])
    tryw(f'v{v} negative data_start', 8, v, [('add_data',[1,2]),('add_segment',0,2,-2,2)])
    tryw(f'v{v} shared data', 8, v, [('add_data',[1,2]),('add_segment',0,2,0,2),('add_segment',4,2,0,2)])
    tryw(f'v{v} partial-shared data', 8, v, [('add_data',[1,2,3,4]),('add_segment',0,2,0,2),('add_segment',4,2,1,2)])
    tryw(f'v{v} high seg w=64', 64, v, [('add_data',[1,2]),('add_segment',(1<<58)-2,2,0,2)])
    tryw(f'v{v} beyond addr space w=8', 8, v, [('add_data',[1,2]),('add_segment',32,2,0,2)])
    tryw(f'v{v} zero tail 1000', 8, v, [('add_data',[1,2]),('add_segment',0,1002,0,2)])
    tryw(f'v{v} adjacent', 8, v, [('add_data',[1,2,3,4]),('add_segment',0,2,0,2),('add_segment',2,2,2,2)])
    tryw(f'v{v} data_len 0 neg data start?', 8, v, [('add_segment',0,2,5,0)])
# raw reader probes
def rawfile(w, v, segs, data, flags=0, reserved=0, magic=0x4a46):
    b=struct.pack('<HHQQ', magic, w, v, len(segs))
    if v!=0: b+=struct.pack('<QL', flags, reserved)
    for s in segs: b+=struct.pack('<QQQQ', *s)
    b+=data
    p.write_bytes(b)
    try:
        r=fjm_reader.Reader(p); return ('OK', sorted(r.memory.items()), r.memory_segments)
    except FlipJumpReadFjmException as e: return ('REJ', str(e)[:70])
    except Exception as e: return ('EXC', type(e).__name__, str(e)[:70])
print('data_length>segment_length', rawfile(8,1,[(0,2,0,4)],bytes([1,2,3,4])))
print('odd start', rawfile(8,1,[(1,2,0,2)],bytes([1,2])))
print('odd length', rawfile(8,1,[(0,3,0,2)],bytes([1,2])))
print('zero length', rawfile(8,1,[(0,0,0,0)],bytes([])))
print('overlap', rawfile(8,1,[(0,4,0,4),(2,2,0,2)],bytes([1,2,3,4])))
print('wrap', rawfile(8,1,[((1<<64)-2,4,0,4)],bytes([1,2,3,4])))
print('trailing unreferenced', rawfile(8,1,[(0,2,0,2)],bytes([1,2,3,4])))
print('partial word w16', rawfile(16,1,[(0,2,0,2)],bytes([1,2,3,4,5])))
print('huge segnum', rawfile(8,1,[],b'')[:2], )
p.write_bytes(struct.pack('<HHQQ',0x4a46,8,1,1<<62)+struct.pack('<QL',0,0)); 
try:
    fjm_reader.Reader(p); print('hugeseg ok')
except Exception as e: print('hugeseg', type(e).__name__)
print('flags nonzero', rawfile(8,1,[(0,2,0,2)],bytes([1,2]),flags=77)[0])
print('v2 data_len odd', rawfile(8,2,[(0,2,0,1)],bytes([1,2])))
print('empty file'); p.write_bytes(b'')
try: fjm_reader.Reader(p)
except Exception as e: print(type(e).__name__)
