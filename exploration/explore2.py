"""Exploration only: execution-guided image construction, then differential of engines vs spec."""
import os, sys, random, tempfile
from pathlib import Path
sys.path.insert(0, __import__('os').path.dirname(__import__('os').path.abspath(__file__)))
from explore_c01 import spec_run, write_image, run_engine


def build(rng, w, max_steps):
    ww = w.bit_length() - 1
    mask = (1 << w) - 1
    dw = 2 * w
    in_addr = 3 * w + ww + 1
    total_words = 1 << (w - ww)
    # segments
    starts = [(0, 2 * rng.randint(2, 10 if w == 8 else 40))]
    hi_choices = [total_words - 2 * rng.randint(1, 4)] if w <= 16 else [
        (1 << 14) - 2 * rng.randint(0, 3), (1 << 23) - 2 * rng.randint(0, 3), (1 << rng.choice([20, 30, 40, 57 if w == 64 else 26])),
        total_words - 2 * rng.randint(1, 4)]
    for _ in range(rng.choice([0, 1, 2, 3])):
        for _t in range(10):
            if rng.random() < 0.5:
                s = 2 * rng.randint(0, 30 if w > 8 else 14)
            else:
                s = rng.choice(hi_choices) & ~1
            l = 2 * rng.randint(1, 12)
            if s + l > total_words or s < 0:
                continue
            if all(s + l <= a or a + b <= s for a, b in starts):
                starts.append((s, l))
                break
    valid = {a + i for a, b in starts for i in range(b)}
    validl = sorted(valid)
    cur = {}      # word -> current value (only bits in known[word] are meaningful)
    known = {}    # word -> mask of decided bits
    fl = {}       # word -> accumulated flips since start
    opslots = [wa for wa in validl if wa + 1 in valid]
    opslots2 = [wa for wa in validl if wa + 1 in valid and wa + 2 in valid]
    def pick_target_op():
        r = rng.random()
        fresh = [x for x in opslots if known.get(x, 0) == 0 and known.get(x + 1, 0) == 0 and x >= 2]
        if rng.random() < 0.02:
            wa = rng.choice(validl)
        elif fresh and rng.random() < 0.9:
            wa = rng.choice(fresh)
            if r >= 0.8 and wa + 2 not in valid: r = 0.7
        elif r >= 0.8 and opslots2:
            wa = rng.choice(opslots2)
        else:
            wa = rng.choice(opslots)
        if r < 0.6:
            return ((wa & ~1) << ww) & mask
        if r < 0.8:
            return (wa << ww) & mask
        return ((wa << ww) + rng.randrange(w)) & mask
    def pick_flip():
        r = rng.random()
        if r < 0.12:
            return dw + rng.randint(0, 1)
        if r < 0.97:
            return ((rng.choice(validl) << ww) + rng.randrange(w)) & mask
        if r < 0.98:
            return rng.randrange(0, dw)
        return rng.randrange(mask + 1)
    init = {}
    def ensure(wa, want, wantmask):
        """decide undecided bits of word wa among wantmask to match want"""
        k = known.get(wa, 0)
        newbits = wantmask & ~k
        cur[wa] = (cur.get(wa, 0) & ~newbits) | (want & newbits)
        init[wa] = (init.get(wa, 0) & ~newbits) | ((want ^ fl.get(wa, 0)) & newbits)
        known[wa] = k | wantmask
    def readword(ba, chooser):
        wa, off = ba >> ww, ba & (w - 1)
        if off == 0:
            if wa not in valid: return None
            if known.get(wa, 0) != mask:
                ensure(wa, chooser(), mask)
            return cur[wa]
        if wa == mask or wa not in valid or (wa + 1) not in valid: return None
        v = chooser()
        ensure(wa, (v << off) & mask, (mask << off) & mask)
        ensure(wa + 1, v >> (w - off), mask >> (w - off))
        return ((cur[wa] >> off) | (cur[wa + 1] << (w - off))) & mask
    ip = 0
    ninp = 0
    inbits = []
    for step in range(max_steps):
        f = readword(ip, pick_flip)
        if f is None: break
        if ip <= in_addr < ip + dw:
            ninp += 1
            if (in_addr >> ww) not in valid: break
            # input bit overwrites: value decided by input; mark known
            ib = rng.randint(0, 1); inbits.append(ib)
            iw, ibit = in_addr >> ww, 1 << (in_addr & (w - 1))
            ensure(iw, 0, ibit)
            cur[iw] = (cur[iw] & ~ibit) | (ibit if ib else 0)
        fw = f >> ww
        if fw not in valid: break
        if known.get(fw, 0) & (1 << (f & (w - 1))):
            cur[fw] ^= 1 << (f & (w - 1))
        fl[fw] = fl.get(fw, 0) ^ (1 << (f & (w - 1)))
        last = step == max_steps - 1
        j = readword(ip + w, (lambda: ip) if (last and rng.random() < 0.7) else pick_target_op)
        if j is None: break
        if j == ip and not (ip <= f < ip + dw): break
        if j < dw: break
        ip = j
    # initial image = cur ^ flips for known bits (input bit: unknown initial -> random), random for unknown
    segs = []
    for a, b in starts:
        data = []
        for i in range(b):
            wa = a + i
            k = known.get(wa, 0)
            v = init.get(wa, 0) & k
            v |= rng.randrange(mask + 1) & ~k
            data.append(v & mask)
        # sometimes trim zero tail
        segs.append((a, b, data))
    return segs, inbits


def main():
    seed = int(sys.argv[1]); n = int(sys.argv[2])
    rng = random.Random(seed)
    d = tempfile.mkdtemp(prefix='fjexp')
    path = Path(d) / 'x.fjm'
    stats = {}; bad = 0; opsum = 0; hist = {}
    for it in range(n):
        w = rng.choice([8, 16, 32, 64])
        segs, inbits = build(rng, w, rng.choice([5, 20, 60, 200]))
        inp = rng.choice([inbits, inbits + [1, 0], inbits[:-1], inbits, inbits])
        ref = spec_run(w, segs, inp, max_ops=5000)
        stats[ref[0]] = stats.get(ref[0], 0) + 1
        if ref[0] == 'TIMEOUT': continue
        opsum += ref[1]; hist[min(ref[1].bit_length(),9)] = hist.get(min(ref[1].bit_length(),9),0)+1
        stats['io'] = stats.get('io', 0) + (len(ref[4]) > 0)
        write_image(path, w, segs, rng.choice([0, 1, 2, 3]))
        for eng in ('featured', 'fast', 'native', 'native'):
            ll = rng.choice([None, 1, 3, 10])
            flat = rng.choice([None, 1, 2, 3, 7, 16, 100, 1 << 14]) if eng == 'native' else None
            try:
                got = run_engine(path, eng, inp, last_len=ll, flat=flat)
            except Exception as e:
                print('EXC', eng, w, segs, inp, flat, repr(e)); bad += 1; continue
            exp = (ref[0], ref[1], ref[2], ref[3], ref[4])
            if got[:5] != exp:
                bad += 1
                print('DIFF', eng, 'flat', flat, 'w=', w, 'segs=', [(a, b, [hex(x) for x in dd]) for a, b, dd in segs], 'inp=', inp)
                print('   exp', exp[:3], exp[3][:10], exp[4][:10]); print('   got', got[:3], got[3][:10], got[4][:10])
            elif ll is not None and got[5] != ref[6][-ll:]:
                bad += 1; print('LASTOPS', eng, flat, w, segs, inp, ll, got[5], ref[6][-ll:])
            else:
                # final memory through device memory
                dev = got[6]
                for a, b, _ in segs:
                    for i in range(b):
                        v = dev.mem.read_word(a + i)
                        if v != ref[5][a + i]:
                            bad += 1; print('MEM', eng, flat, w, a + i, hex(v), hex(ref[5][a + i]), segs, inp); break
            if bad > 10: break
        if bad > 10: break
    print(stats, 'bad', bad, 'avg ops', opsum / max(1, n), 'hist', hist)

main()
