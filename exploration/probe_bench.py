import sys, os, time
sys.path.insert(0, os.path.dirname(os.path.abspath(__file__)))
from minibench import Bench

def s(v, bits):
    v &= (1 << bits) - 1
    return v - (1 << bits) if v >> (bits - 1) else v

# ---- C09: hex.print_dec_int / print_int / print_uint over all 8-bit + some 16-bit values
for n, vals in ((2, range(256)), (4, [0, 1, 9, 10, 99, 100, 999, 1000, 9999, 10000, 32767, 32768, 32769, 65535, 65526, 40000])):
    b = Bench(f'''stl.startup_and_init_all
hex.print_dec_int {n}, x
stl.output ','
hex.print_dec_uint {n}, x
stl.output ','
hex.print_int {n}, x, 1, 1
stl.output ','
hex.print_uint {n}, x, 0, 0
stl.loop
x: hex.vec {n}
''')
    bad = 0
    for v in vals:
        m = b.fresh(); b.set(m, 'x', n, v)
        cause, ops, out, _, rem = b.run(m)
        sv = s(v, 4 * n)
        exp = f"{sv},{v},{'-' if sv < 0 else ''}0x{abs(sv):X},{v:x}".encode()
        if out != exp or cause != 0 or b.get(m, 'x', n) != v or rem:
            bad += 1
            if bad < 6: print('  C09 print n', n, 'v', v, 'got', out, 'exp', exp, cause, b.get(m, 'x', n))
    print('C09 print n', n, 'bad', bad)

# ---- C09: input_dec_int
b = Bench('''stl.startup_and_init_all
hex.input_dec_int 2, x, err
stl.output 'K'
stl.loop
err:
stl.output 'E'
stl.loop
x: hex.vec 2, 0x55
''')
bad = 0
tests = [b'0\n', b'7\n', b'-7\n', b'127\n', b'128\n', b'-128\n', b'255\n', b'256\n', b'300\n', b'-0\n', b'-\n', b'\n', b'12a\n', b'1-2\n', b'+5\n',
         b'12\x00', b'12', b'', b'007\n', b' 7\n', b'7 \n', b'9999999\n', b'-300\n', b'1:\n', b'1/\n']
for t in tests:
    m = b.fresh(); cause, ops, out, consumed, rem = b.run(m, t)
    x = b.get(m, 'x', 2)
    # reference
    i = 0; neg = False
    def ref(t):
        i = 0; neg = False; val = 0
        if i >= len(t): return ('EOF',)
        if t[i] == 0x2d:
            neg = True; i += 1
            if i >= len(t): return ('EOF',)
        while True:
            c = t[i]
            if 0x30 <= c <= 0x39:
                val = (val * 10 + c - 0x30) & 0xff; i += 1
                if i >= len(t): return ('EOF',)
            else:
                break
        if neg: val = (-val) & 0xff
        return ('K' if c in (0, 10) else 'E', val, i + 1)
    r = ref(t)
    got = ('EOF',) if cause == 1 else (out.decode(), x, consumed // 8)
    if got != r:
        bad += 1; print('  C09 input_dec_int', t, 'got', got, 'exp', r)
print('C09 input_dec_int bad', bad)

# ---- C09: input_as_hex over all bytes
b = Bench('''stl.startup_and_init_all
hex.input_as_hex x, err
stl.output 'K'
stl.loop
err:
stl.output 'E'
stl.loop
x: hex.hex 5
''')
bad = 0
for c in range(256):
    m = b.fresh(); cause, ops, out, consumed, rem = b.run(m, bytes([c]))
    ch = chr(c)
    if ch in '0123456789abcdefABCDEF':
        exp = (b'K', int(ch, 16))
        got = (out, b.get(m, 'x', 1))
    else:
        exp = (b'E',); got = (out,)
    if got != exp or cause != 0:
        bad += 1; print('  input_as_hex', c, got, exp, cause)
print('C09 input_as_hex bad', bad)

# ---- C05: bit.div / idiv / div_loop n=4 exhaustive, bit.div10, shra, mul
for macro in ('div', 'div_loop', 'idiv', 'idiv_loop'):
    n = 4
    b = Bench(f'''stl.startup
bit.{macro} {n}, a, b, q, r
stl.loop
a: bit.vec {n}
b: bit.vec {n}
q: bit.vec {n}, 5
r: bit.vec {n}, 3
''', w=32)
    bad = 0; t = time.time()
    for av in range(16):
        for bv in range(16):
            m = b.fresh(); b.set(m, 'a', n, av, 1); b.set(m, 'b', n, bv, 1)
            cause, ops, out, _, _ = b.run(m)
            q, r, a2, b2 = (b.get(m, x, n, 1) for x in 'qrab')
            if bv == 0:
                exp = (5, 3)
            elif macro.startswith('i'):
                sa, sb = s(av, 4), s(bv, 4)
                eq = abs(sa) // abs(sb) * (1 if (sa < 0) == (sb < 0) else -1); er = sa - eq * sb
                exp = (eq & 15, er & 15)
            else:
                exp = (av // bv, av % bv)
            if (q, r) != exp or (a2, b2) != (av, bv) or cause != 0:
                bad += 1
                if bad < 5: print('  bit.', macro, av, bv, 'got', q, r, a2, b2, 'exp', exp, cause)
    print('C05 bit.' + macro, 'bad', bad, round(time.time() - t, 2), 's')
b = Bench('''stl.startup
bit.div10 8, d, x
stl.loop
x: bit.vec 8
d: bit.vec 8, 0x33
''', w=32)
bad = 0
for v in range(256):
    m = b.fresh(); b.set(m, 'x', 8, v, 1); cause, *_ = b.run(m)
    if (b.get(m, 'd', 8, 1), b.get(m, 'x', 8, 1)) != (v // 10, v % 10): bad += 1
print('C05 bit.div10 bad', bad)
