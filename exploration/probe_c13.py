import sys, tempfile, io, contextlib, hashlib, subprocess, json, os
sys.path.insert(0,__import__('os').environ.get('FJ_SNAPSHOT', '/tmp/exp/plain'))
from pathlib import Path
import flipjump
from flipjump.fjm.fjm_consts import FJMVersion
from flipjump.utils.exceptions import *
d=Path(tempfile.mkdtemp())
progs={
 'hello': 'stl.startup\nstl.output "Hi"\nstl.loop\n',
 'math': 'stl.startup_and_init_all\nhex.add 2, a, b\nhex.print_as_digit 2, a, 0\nstl.loop\na: hex.vec 2, 3\nb: hex.vec 2, 4\n',
 'bad_syntax': 'stl.startup\nns x {\n def q {\n ;;; \n',
 'bad_macro': 'stl.startup\nfoo 1\n',
 'deep': 'def r n {\n rep(n>0, i) r n-1\n ;\n}\nstl.startup\nr 50\nstl.loop\n',
 'unused_label': 'stl.startup\ndef m @ zz {\n;\n}\nm\nstl.loop\n',
}
def asm(name, w, werr, depth=900, v=3):
    f=d/f'{name}.fj'; f.write_text(progs[name]); out=d/'o.fjm'; dbg=d/'o.fjd'
    for p in (out,dbg):
        if p.exists(): p.unlink()
    try:
        with contextlib.redirect_stdout(io.StringIO()):
            flipjump.assemble([f], out, memory_width=w, fjm_version=FJMVersion(v), print_time=False, warning_as_errors=werr, debugging_file_path=dbg, max_recursion_depth=depth)
        return hashlib.sha256(out.read_bytes()).hexdigest()[:12], hashlib.sha256(dbg.read_bytes()).hexdigest()[:12]
    except FlipJumpException as e:
        return ('ERR', type(e).__name__, str(e)[:60].replace(str(d),'D'))
if len(sys.argv)>1:
    args=json.loads(sys.argv[1]); print(json.dumps(asm(*args))); sys.exit()
hist=[('hello',64,True),('math',32,False),('bad_syntax',64,True),('hello',64,True),('bad_macro',32,True),('deep',64,True,20),('math',64,True),('unused_label',64,True),('unused_label',64,False),('hello',32,False),('deep',64,True,900),('math',32,False)]
for h in hist:
    got=asm(*h)
    fresh=json.loads(subprocess.run([sys.executable,__file__,json.dumps(h)],capture_output=True,text=True).stdout.strip().splitlines()[-1])
    print(h, 'SAME' if list(got)==list(fresh) else ('DIFF',got,fresh))
import sys as s; print('reclimit', s.getrecursionlimit())
