import sys, tempfile, io, contextlib, os
sys.path.insert(0,__import__('os').environ.get('FJ_SNAPSHOT', '/tmp/exp/plain')); sys.path.insert(0, __import__('os').path.dirname(__import__('os').path.abspath(__file__)))
from pathlib import Path
from explore_c01 import write_image, RecIO
from flipjump.interpreter import fjm_run
from flipjump.utils.exceptions import *
d=Path(tempfile.mkdtemp()); p=d/'a.fjm'
w=16; dw=32
# program: op0: ;op2   op1(IO at 2w) ... then loop outputting bits: ops at 4w.. : flip 2w+1 ; next
words=[0, 4*w,   0,0]
n=6
for i in range(n):
    a=(4+2*i)*w
    words += [2*w+(i&1), a+dw]
words += [0, (4+2*n)*w]   # self loop
write_image(p,w,[(0,len(words),words)],1)
class FailIO(RecIO):
    def __init__(self, k, exc):
        super().__init__([]); self.k=k; self.exc=exc; self.n=0
    def write_bit(self,b):
        self.n+=1
        if self.n==self.k: raise self.exc
        super().write_bit(b)
for exc in (KeyboardInterrupt(), IODeviceException('x'), ValueError('boom')):
  for eng in ('featured','fast','native'):
    dev=FailIO(3, exc)
    if eng=='fast': os.environ['FLIPJUMP_NO_NATIVE']='1'
    else: os.environ.pop('FLIPJUMP_NO_NATIVE',None)
    try:
        ts=fjm_run.run(p, io_device=dev, profile=(eng=='featured'), last_ops_debugging_list_length=4)
        print(type(exc).__name__, eng, 'RET', ts.termination_cause.name, ts.op_counter, list(ts.last_ops_addresses), dev.calls, [dev.mem.read_word(i) for i in (4,5)])
    except BaseException as e:
        print(type(exc).__name__, eng, 'RAISED', type(e).__name__, repr(e.__cause__), dev.calls)
