import sys, tempfile, io, contextlib, time
sys.path.insert(0,__import__('os').environ.get('FJ_SNAPSHOT', '/tmp/exp/plain'))
from pathlib import Path
import flipjump
from flipjump.fjm.fjm_consts import FJMVersion
from flipjump.interpreter import fjm_run
from flipjump.interpreter.io_devices.FixedIO import FixedIO
d=Path(tempfile.mkdtemp())
def run(src, w=64, inp=b''):
    f=d/'a.fj'; f.write_text(src); out=d/'a.fjm'
    with contextlib.redirect_stdout(io.StringIO()):
        flipjump.assemble([f], out, memory_width=w, fjm_version=FJMVersion(1), print_time=False, warning_as_errors=False)
        io_=FixedIO(inp)
        ts=fjm_run.run(out, io_device=io_, last_ops_debugging_list_length=None)
    return ts.termination_cause.name, ts.op_counter, io_.get_output(allow_incomplete_output=True)
def s(v,n):
    v &= (1<<(4*n))-1
    return v-(1<<(4*n)) if v>>(4*n-1) else v
t=time.time()
n=2
bad=0
for ro in (0,1,2):
  for a in (-6,6,-7,7,0,-128,127,5,-5):
    for b in (3,-3,1,-1,-128,127,2,-2):
        src=f'''stl.startup_and_init_all
hex.idiv {n}, {n}, q, r, a, b, div0, {ro}
hex.print_as_digit {n}, q, 0
hex.print_as_digit {n}, r, 0
hex.print_as_digit {n}, a, 0
hex.print_as_digit {n}, b, 0
stl.loop
div0:
stl.output "Z"
stl.loop
q: hex.vec {n}, 0x55
r: hex.vec {n}, 0x77
a: hex.vec {n}, {a & 0xff}
b: hex.vec {n}, {b & 0xff}
'''
        cause, ops, out = run(src)
        o=out.decode()
        if o=='Z': print('div0?',a,b); continue
        q,r,a2,b2=[s(int(o[i:i+2],16),2) for i in (0,2,4,6)]
        # expected
        import math
        if ro==0:
            eq=a//b; er=a-eq*b   # sign(r)==sign(b) (floor)
        elif ro==1:
            eq=int(a/b) if True else 0
            eq = abs(a)//abs(b) * (1 if (a<0)==(b<0) else -1); er=a-eq*b
        else:
            er = a % abs(b); eq=(a-er)//b
        ok = (q==s(eq,2) and r==s(er,2) and a2==a and b2==b)
        if not ok:
            bad+=1
            print(f'rem_opt={ro} a={a} b={b}: got q={q} r={r} a={a2} b={b2}; expected q={eq} r={er}')
print('bad',bad, time.time()-t)
