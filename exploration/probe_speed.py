import sys, tempfile, io, contextlib, time
sys.path.insert(0,__import__('os').environ.get('FJ_SNAPSHOT', '/tmp/exp/plain'))
from pathlib import Path
import flipjump
from flipjump.fjm.fjm_consts import FJMVersion
from flipjump.fjm.fjm_reader import Reader
from flipjump.interpreter import _fjcore
from flipjump.utils.functions import load_debugging_labels
from flipjump.utils.exceptions import IOReadOnEOF
d=Path(tempfile.mkdtemp())
src='''stl.startup_and_init_all
hex.add 2, a, b
hex.mul 2, c, a, b
stl.loop
a: hex.vec 2, 0x12
b: hex.vec 2, 0x34
c: hex.vec 2, 0
'''
for w in (32,64):
    f=d/'a.fj'; f.write_text(src); out=d/f'a{w}.fjm'; dbg=d/f'a{w}.fjd'
    for rep in range(2):
        t=time.time()
        with contextlib.redirect_stdout(io.StringIO()):
            flipjump.assemble([f], out, memory_width=w, fjm_version=FJMVersion(1), print_time=False, warning_as_errors=False, debugging_file_path=dbg)
        print('w',w,'assemble',round(time.time()-t,2),'s', out.stat().st_size)
    r=Reader(out); labels=load_debugging_labels(dbg)
    print(' words',len(r.memory), 'segments', [(s.segment_start,s.segment_length) for s in r.memory_segments], 'labels', len(labels), {k:v for k,v in labels.items() if k in 'abc'})
    # direct native runs with poking
    ww=w.bit_length()-1
    runs=[]
    keys=sorted(r.memory); base=keys[0]
    assert keys==list(range(base, base+len(keys)))
    vals=[r.memory[k] for k in keys]
    def getvar(m, addr, n):
        v=0
        for i in range(n):
            word=m.get_word((addr>>ww)+1+2*i)
            v |= ((word>>(ww+1))&0xf)<<(4*i)
        return v
    def setvar(m, addr, n, val):
        for i in range(n):
            wa=(addr>>ww)+1+2*i
            word=m.get_word(wa)
            word = (word & ~(0xf<<(ww+1))) | (((val>>(4*i))&0xf)<<(ww+1))
            m.set_word(wa, word)
    def rb(): raise IOReadOnEOF('x')
    def wb(b): pass
    t=time.time(); N=2000; bad=0; ops=0
    for i in range(N):
        m=_fjcore.Memory(w)
        for s in r.memory_segments: m.add_segment(s.segment_start, s.segment_length)
        m.set_words(base, vals)
        av=(i*37)&0xff; bv=(i*101+7)&0xff
        setvar(m, labels['a'], 2, av); setvar(m, labels['b'], 2, bv)
        cause, opc, err, lo, ps = m.run(rb, wb, IOReadOnEOF)
        ops+=opc
        a2=getvar(m,labels['a'],2); c2=getvar(m,labels['c'],2)
        if cause!=0 or a2!=(av+bv)&0xff or c2!=(a2*bv)&0xff: bad+=1
    dt=time.time()-t
    print(' direct runs', N, 'in', round(dt,2),'s ->', round(N/dt), 'runs/s; avg ops', ops//N, 'bad', bad)
