import sys, tempfile, io, contextlib
sys.path.insert(0,__import__('os').environ.get('FJ_SNAPSHOT', '/tmp/exp/plain'))
from pathlib import Path
import flipjump
from flipjump.fjm.fjm_consts import FJMVersion
from flipjump.utils.exceptions import *
d=Path(tempfile.mkdtemp())
def asm(src, w=64, v=3, stl=False):
    f=d/'a.fj'; f.write_text(src); out=d/'a.fjm'
    if out.exists(): out.unlink()
    buf=io.StringIO()
    try:
        with contextlib.redirect_stdout(buf):
            flipjump.assemble([f], out, memory_width=w, use_stl=stl, fjm_version=FJMVersion(v), print_time=False)
        r='OK'
    except FlipJumpException as e:
        c=e.__cause__
        r=f'{type(e).__name__}: {str(e)[:90]!r}' + (f'  <- {type(c).__name__}: {str(c)[:60]}' if c else '')
    except BaseException as e:
        r=f'RAW {type(e).__name__}: {str(e)[:80]}'
    return r, out.exists()
cases = {
 'div0 const fold': ';1/0',
 'mod0 const fold': ';1%0',
 'neg shift fold': ';1<<(0-1)',
 'neg shift rsh': ';1>>(0-1)',
 'neg pow': ';2**(0-1)',
 'div0 with label': 'a:;1/(a-a)',
 'div0 const def': 'x = 1/0\n;x',
 'div0 in macro arg': 'def m a {\n;1/a\n}\nm 0',
 'huge shift': ';1<<(1<<70)',
 'big pow': ';7**(7**5)',
 'jump too big': ';1<<64',
 'flip too big': '(1<<64);',
 'negative jump': ';0-1',
 'negative flip': '0-1;',
 'jump too big v1': (';1<<64',64,1),
 'neg jump v1': (';0-1',64,1),
 'wflip neg value': 'wflip 0, 0-1',
 'wflip huge value': 'wflip 0, 1<<64',
 'wflip neg addr': 'wflip 0-64, 1',
 'segment neg': ';\nsegment 0-64\n;',
 'segment huge': ';\nsegment 1<<64\n;',
 'segment unaligned': ';\nsegment 3\n;',
 'reserve neg': ';\nreserve 0-64\n;',
 'reserve huge': ';\nreserve 1<<70',
 'pad 0': ';\npad 0',
 'pad neg': ';\npad 0-1',
 'rep neg': 'def m {\n;\n}\nrep(0-1, i) m',
 'unknown macro': 'foo 1',
 'unknown label': ';a',
 'dup label': 'a:\na:\n;',
 'recursion': 'def m {\nm\n}\nm',
 'lex err': ';`',
 'syntax err': ';;;',
 'unterminated': 'def m {\n;',
 'empty': '',
 'only label': 'a:',
 'segment overlap': ';\nsegment 0\n;',
 'label as param swap': 'def m a {\na:\n}\nm 5',
 'nonascii': ';\n// \u00e9\n\u00e9;',
 'nul byte': ';\x00',
 'ternary div0 untaken': ';1 ? 2 : 1/0',
 'str too long?': ';"' + 'a'*100 + '"',
 'dots too many': 'ns a {\n;....b\n}',
 'def in def': 'def a {\ndef b {\n;\n}\n}',
 'rep iterator in count': 'def m x {\n;\n}\nrep(i, i) m i',
 'macro arity': 'def m a {\n;a\n}\nm 1, 2',
 'nonassoc': ';1<2<3',
 'w redefine': 'w = 5\n;',
 'const label collide': 'x = 5\nx:\n;',
 'bad hex': ';0x',
 'big dec': ';' + '9'*5000,
}
for k,c in cases.items():
    if isinstance(c,tuple): r=asm(*c)
    else: r=asm(c)
    print(f'{k:28s} {r}')
