"""Exploration only: tiny 'assemble once, poke many' bench used to de-risk DESIGN 3.7."""
import sys, os, tempfile, io, contextlib
sys.path.insert(0, os.environ.get('FJ_SNAPSHOT', '/tmp/exp/plain'))
from pathlib import Path
import flipjump
from flipjump.fjm.fjm_consts import FJMVersion
from flipjump.fjm.fjm_reader import Reader
from flipjump.interpreter import _fjcore
from flipjump.utils.functions import load_debugging_labels
from flipjump.utils.exceptions import IOReadOnEOF

_d = Path(tempfile.mkdtemp(prefix='fjbench'))


class Bench:
    def __init__(self, src, w=64):
        f = _d / 'a.fj'; f.write_text(src); out = _d / 'a.fjm'; dbg = _d / 'a.fjd'
        with contextlib.redirect_stdout(io.StringIO()):
            flipjump.assemble([f], out, memory_width=w, fjm_version=FJMVersion(1), print_time=False,
                              warning_as_errors=False, debugging_file_path=dbg)
        r = Reader(out)
        self.w = w; self.ww = w.bit_length() - 1
        self.labels = load_debugging_labels(dbg)
        self.segs = [(s.segment_start, s.segment_length) for s in r.memory_segments]
        keys = sorted(r.memory)
        self.runs = []
        start = None
        for k in keys:
            if start is None or k != prev + 1:
                start = k; self.runs.append((k, []))
            self.runs[-1][1].append(r.memory[k]); prev = k

    def fresh(self):
        m = _fjcore.Memory(self.w)
        for s, l in self.segs: m.add_segment(s, l)
        for k, vals in self.runs: m.set_words(k, vals)
        return m

    def get(self, m, label, n, bits=4):
        a = self.labels[label] if isinstance(label, str) else label
        v = 0
        for i in range(n):
            word = m.get_word((a >> self.ww) + 1 + 2 * i)
            v |= ((word >> (self.ww + 1)) & ((1 << bits) - 1)) << (bits * i)
        return v

    def set(self, m, label, n, val, bits=4):
        a = self.labels[label] if isinstance(label, str) else label
        mask = ((1 << bits) - 1) << (self.ww + 1)
        for i in range(n):
            wa = (a >> self.ww) + 1 + 2 * i
            word = m.get_word(wa)
            m.set_word(wa, (word & ~mask) | ((((val >> (bits * i)) & ((1 << bits) - 1))) << (self.ww + 1)))

    def run(self, m, inp=b''):
        bits = [(byte >> i) & 1 for byte in inp for i in range(8)]
        out = []
        pos = [0]
        def rb():
            if pos[0] >= len(bits): raise IOReadOnEOF('eof')
            pos[0] += 1; return bool(bits[pos[0] - 1])
        def wb(b): out.append(int(bool(b)))
        cause, ops, err, _, _ = m.run(rb, wb, IOReadOnEOF)
        data = bytes(sum(out[i + j] << j for j in range(8)) for i in range(0, len(out) - len(out) % 8, 8))
        return cause, ops, data, pos[0], len(out) % 8
