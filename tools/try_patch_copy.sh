#!/bin/bash
# try_patch_copy.sh <patch> <ID>: check ID against a patched copy of HEAD (does not touch /repo)
P=$(realpath $1); ID=$2; T=$(basename $P .diff)_$$; D=/var/tmp/repo_p_$T
rm -rf $D; mkdir $D; git -C /repo archive HEAD | tar -x -C $D; (cd $D && patch -p1 -s < $P) || { echo "patch fails"; rm -rf $D; exit 2; }
FJVERIF_REPO=$D FJVERIF_SHRINK_CAP_S=3 FJVERIF_EVIDENCE_DIR=/var/tmp/scratch_ev_$T FJVERIF_REPLAY_DIR=/var/tmp/scratch_rp_$T /verif/check $ID --tier quick 2>&1 | grep -E "^VIOLATION|^detail|quick:|HARNESS" | cut -c1-200 | head -2
rm -rf $D /var/tmp/scratch_ev_$T /var/tmp/scratch_rp_$T
