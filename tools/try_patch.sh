#!/bin/sh
# usage: tools/try_patch.sh <patch.diff> <ID> [extra check args]   -- applies to /repo, runs the check, always reverts
P=$(realpath "$1"); ID=$2; shift 2
cd /repo || exit 2
if ! git diff --quiet; then echo "repo dirty"; exit 2; fi
git apply "$P" || { echo "patch does not apply"; exit 2; }
trap 'git -C /repo checkout -- . ' EXIT INT TERM
FJVERIF_EVIDENCE_DIR=/tmp/fjverif-mutant-evidence FJVERIF_REPLAY_DIR=/tmp/fjverif-mutant-replays /verif/check "$ID" "$@"
echo "exit=$?"
