#!/usr/bin/env python3
"""Regenerate MANIFEST.json from the table below (claimed checks) + properties.jsonl (not_applicable for the rest)."""
import json, os
V = os.path.dirname(os.path.dirname(os.path.abspath(__file__)))
CLAIMED = json.load(open(os.path.join(V, 'tools', 'claimed.json')))
props = [json.loads(l) for l in open(os.path.join(V, 'properties.jsonl'))]
checks = []
na = []
for p in props:
    pid = p['id']
    c = CLAIMED.get(pid)
    if not c or c.get('not_applicable'):
        na.append({'property_id': pid, 'reason': (c or {}).get('not_applicable', 'check not built yet in this round (planned in DESIGN.md section 4); nothing is claimed')})
        continue
    checks.append({
        'property_id': pid,
        'quick_cmd': './check %s --tier quick' % pid,
        'thorough_cmd': './check %s --tier thorough' % pid,
        'evidence_file': 'evidence/%s.json' % pid,
        'replay_cmd_template': './check %s --replay {path}' % pid,
        'engine': 'fjverif',
        'level_claimed': {'category': c.get('category', 'exploration'), 'text': c['text'], 'design_ref': 'DESIGN.md section 4, ' + pid},
        'level_note': c['note'],
        'technique': c['technique'],
    })
m = {
    'version': 1,
    'setup_cmd': '/venv/bin/python -c "import hypothesis" 2>/dev/null || /venv/bin/pip install --no-index --find-links /opt/veriftools/wheels hypothesis',
    'hooks': {'guard': 'FLIPJUMP_VERIF', 'enable': 'no hooks: every check copies /repo/flipjump (working tree) into a scratch dir, compiles _fjcore.c there (gcc; clang+ASan/UBSan for C11) and observes the public API only',
              'baseline_off_cmd': 'cd /repo && /venv/bin/python -m pytest -ra -q -p no:cacheprovider --timeout=900 --continue-on-collection-errors',
              'source_commits': [], 'add_only': True},
    'engines': [{'name': 'fjverif', 'path': 'fjverif/', 'serves_properties': [c['property_id'] for c in checks],
                 'kind_free_text': 'Hypothesis-driven property-based testing (plain + stateful), exhaustive enumeration of small finite sub-domains, reference models written from the property statements; sharded over 16 processes'}],
    'checks': checks,
    'not_applicable': na,
    'notes': 'Entry point ./check <ID> --tier quick|thorough [--replay FILE]. Exit 0 ok, 1 VIOLATION, 2 harness error. known_findings.json lists open findings (suppressed by root-cause key) and fixed ones (suppress nothing).',
}
json.dump(m, open(os.path.join(V, 'MANIFEST.json'), 'w'), indent=1)
print('checks:', [c['property_id'] for c in checks], 'na:', len(na))
