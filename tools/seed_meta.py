#!/usr/bin/env python3
"""seed_meta.py <name> <property> <needs> <caught_by> : writes seeded/<name>/meta.json"""
import json, sys
name, prop, needs, caught = sys.argv[1:5]
json.dump({'breaks_property': prop, 'needs_to_manifest': needs,
           'confirmed': 'tools/verify_seed.sh: (a) repo suite 455 passed with the patch in a scratch worktree, (b) demo.py exits non-zero with the patch, (c) demo.py exits 0 without it',
           'ran': 'tools/try_seed.sh %s <ID> (applies patch.diff to /repo, runs ./check <ID> --tier quick, reverts)' % name,
           'caught_by': caught}, open('/verif/seeded/%s/meta.json' % name, 'w'), indent=1)
