#!/bin/bash
# verify_seed.sh <worktree> <outdir> <seedname>  : confirm (a) suite passes with patch (b) demo fails with patch (c) demo passes without
WT=$1; OUT=$2; NAME=$3
INC=$(/venv/bin/python -c "import sysconfig;print(sysconfig.get_paths()['include'])")
build() { gcc -O2 -fPIC -shared -DPy_LIMITED_API=0x030A0000 -I$INC $WT/flipjump/interpreter/_fjcore.c -o $WT/flipjump/interpreter/_fjcore.abi3.so; }
cd $WT || exit 2
git -C $WT checkout -q -- . ; git -C $WT stash list >/dev/null
git -C $WT apply $OUT/patch.diff || { echo "PATCH DOES NOT APPLY"; exit 2; }
build
echo "--- (a) suite with patch"; PYTHONPATH=$WT /venv/bin/python -m pytest -q -p no:cacheprovider --timeout=900 2>&1 | tail -1
echo "--- (b) demo with patch (expect non-zero)"; (cd $OUT && PYTHONPATH=$WT timeout 600 /venv/bin/python demo.py >/tmp/demo_b.log 2>&1; echo "exit=$?"; tail -3 /tmp/demo_b.log)
git -C $WT checkout -q -- . ; build
echo "--- (c) demo without patch (expect 0)"; (cd $OUT && PYTHONPATH=$WT timeout 600 /venv/bin/python demo.py >/tmp/demo_c.log 2>&1; echo "exit=$?"; tail -2 /tmp/demo_c.log)
mkdir -p /verif/seeded/$NAME && cp $OUT/patch.diff $OUT/demo.py /verif/seeded/$NAME/ && cp $OUT/notes.md /verif/seeded/$NAME/notes.md 2>/dev/null
echo "copied to /verif/seeded/$NAME"
