#!/usr/bin/env python3
"""print the prompt for a seeding sub-agent: seed_prompt.py C01 [variant-hint]"""
import json, sys
pid = sys.argv[1]
hint = sys.argv[2] if len(sys.argv) > 2 else ''
suffix = sys.argv[3] if len(sys.argv) > 3 else ''
p = [json.loads(l) for l in open('/verif/properties.jsonl') if json.loads(l)['id'] == pid][0]
wt = '/tmp/seed_%s%s' % (pid.lower(), suffix)
out = wt + '_out'
print(f"""You are helping to evaluate a test-generation tool. You work ONLY inside the git worktree {wt} (a checkout of the
open-source project tomhea/flip-jump: a Python macro assembler, .fjm binary format reader/writer, interpreter with an
optional native C engine, debugger, and a .fj standard library for the FlipJump one-instruction language). Do not read
or write anything under /verif or /repo. Put your deliverables in {out}/ .

Here is a semantic property the project is supposed to satisfy:

TITLE: {p['title']}
STATEMENT: {p['statement']}
QUANTIFIED OVER: {p['quantifier']['text']}
RELEVANT FILES: {', '.join(p['anchors']['files'])}

Task: make ONE small, realistic change to the project's source in {wt} (a plausible bug a developer could introduce:
an off-by-one, a wrong mask, a dropped check, a stale cache key, a wrong operand order, two sites that each look fine
alone ...) that BREAKS this property, while the project still compiles/imports and its whole existing test suite still
passes. The change must need something specific to manifest - an unusual input, a particular value or alignment, a
multi-step sequence, a specific option combination, a rare branch - NOT something that ordinary use would expose at
once. {hint}

How to build and test in the worktree (the sandbox has no network):
  cd {wt}
  # (re)build the native engine after ANY change to flipjump/interpreter/_fjcore.c (and once at the start):
  gcc -O2 -fPIC -shared -DPy_LIMITED_API=0x030A0000 -I$(/venv/bin/python -c "import sysconfig;print(sysconfig.get_paths()['include'])") flipjump/interpreter/_fjcore.c -o flipjump/interpreter/_fjcore.abi3.so
  # run the full existing test-suite against the worktree (about 15 s, must stay '455 passed'):
  PYTHONPATH={wt} /venv/bin/python -m pytest -q -p no:cacheprovider --timeout=900
  # always run python as: PYTHONPATH={wt} /venv/bin/python ...   and check flipjump.__file__ is inside {wt}

Deliverables in {out}/ :
  1. patch.diff   - `git -C {wt} diff` of your change (source files only; do not include the .so or test files).
  2. demo.py      - a small standalone script (run as PYTHONPATH=<tree> /venv/bin/python demo.py) that exits 0 on the
                    ORIGINAL tree and exits non-zero (assertion failure) on the tree with your patch, demonstrating the
                    property violation through the project's public behaviour (not by inspecting source text).
  3. notes.md     - 5-10 lines: what you changed, why it breaks the property, what exactly is needed for it to manifest,
                    and the output of the test suite with the patch applied.
Verify all three claims yourself before finishing: (a) test suite passes with the patch, (b) demo.py fails with the patch,
(c) demo.py passes on the original code: `git -C {wt} diff > {out}/patch.diff; git -C {wt} apply -R {out}/patch.diff`, run it, then `git -C {wt} apply {out}/patch.diff` (do NOT use `git stash`: the stash is shared between worktrees). Leave the worktree with your patch applied.
Do not edit tests. Keep the patch small (ideally < 15 changed lines).""")
