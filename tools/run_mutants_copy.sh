#!/bin/bash
for id in "$@"; do
  for p in /verif/mutants/$id/*.diff /verif/seeded/$id-*/patch.diff; do
    [ -f "$p" ] || continue
    out=$(/verif/tools/try_patch_copy.sh "$p" $id 2>&1)
    echo "$id $(echo $p | sed 's#/verif/##') violations=$(echo "$out" | grep -c '^VIOLATION') harness=$(echo "$out" | grep -c 'HARNESS\|patch fails')"
  done
done
echo DONE
