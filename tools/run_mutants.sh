#!/bin/bash
# run_mutants.sh <ID>... : every hand mutant and seeded patch of the given properties against its check (quick); prints caught/missed
for id in "$@"; do
  for p in /verif/mutants/$id/*.diff /verif/seeded/$id-*/patch.diff; do
    [ -f "$p" ] || continue
    out=$(FJVERIF_SHRINK_CAP_S=3 /verif/tools/try_patch.sh "$p" $id 2>&1)
    nv=$(echo "$out" | grep -c '^VIOLATION'); he=$(echo "$out" | grep -c 'HARNESS-ERROR\|repo dirty\|does not apply')
    echo "$id $(echo $p | sed 's#/verif/##') violations=$nv harness=$he"
  done
done
