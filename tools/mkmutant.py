#!/usr/bin/env python3
"""mkmutant.py <out.diff> <file-relative-to-repo> <old> <new> [count]  -- builds a diff by string replacement (repo untouched afterwards)"""
import subprocess, sys
out, rel, old, new = sys.argv[1:5]
count = int(sys.argv[5]) if len(sys.argv) > 5 else 1
p = '/repo/' + rel
assert subprocess.run(['git', '-C', '/repo', 'diff', '--quiet']).returncode == 0, 'repo has uncommitted changes'
s = open(p).read()
assert s.count(old) >= 1, 'pattern not found'
if count == 1:
    assert s.count(old) == 1, 'pattern not unique: %d' % s.count(old)
open(p, 'w').write(s.replace(old, new) if count != 1 else s.replace(old, new, 1))
d = subprocess.run(['git', '-C', '/repo', 'diff'], capture_output=True, text=True).stdout
subprocess.run(['git', '-C', '/repo', 'checkout', '--', rel], check=True)
open(out, 'w').write(d)
print('wrote', out, len(d.splitlines()), 'lines')
