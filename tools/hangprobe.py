"""hangprobe.py <ID> <shard> [seconds]: run one shard of a check in-process; dump all tracebacks and exit if it takes too long.
The last case handed to run_case is kept in /var/tmp/hangprobe_<ID>_<shard>.json"""
import faulthandler
import json
import sys

sys.path.insert(0, '/verif')
pid, shard = sys.argv[1].upper(), int(sys.argv[2])
secs = int(sys.argv[3]) if len(sys.argv) > 3 else 60
faulthandler.dump_traceback_later(secs, exit=True)
from fjverif import env  # noqa
env.create_snapshot()
env.activate()
import importlib  # noqa
from fjverif import runner  # noqa
mod = importlib.import_module('fjverif.props.' + pid.lower())
orig = mod.run_case


def rc(case):
    with open('/var/tmp/hangprobe_%s_%d.json' % (pid, shard), 'w') as f:
        json.dump(case, f)
    return orig(case)


mod.run_case = rc
r = runner.run_shard((pid, 'quick', 1, shard, 16, secs - 10))
print(shard, r['evaluations'], (r.get('harness_error') or '')[-300:])
