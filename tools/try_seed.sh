#!/bin/sh
# try_seed.sh <seedname> <ID> [args]: run check ID against /verif/seeded/<seedname>/patch.diff applied to /repo (always reverted)
exec /verif/tools/try_patch.sh /verif/seeded/$1/patch.diff "$2" $3 $4 $5
