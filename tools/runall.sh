#!/bin/bash
# run every registered check (quick by default) and summarise
TIER=${1:-quick}
for id in $(python3 -c "import json;print(' '.join(c['property_id'] for c in json.load(open('/verif/MANIFEST.json'))['checks']))"); do
  out=$(/verif/check $id --tier $TIER 2>&1); rc=$?
  nv=$(echo "$out" | grep -c '^VIOLATION'); nk=$(echo "$out" | grep -c '^KNOWN-FINDING')
  echo "$id rc=$rc violations=$nv known=$nk :: $(echo "$out" | tail -1 | cut -c1-160)"
  [ $rc -ne 0 ] && echo "$out" | grep -E '^VIOLATION|^detail|HARNESS' | head -5 | cut -c1-300
done
